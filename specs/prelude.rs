// Hand-written Verus prelude, included verbatim at the top of every generated file.
// Everything here is part of the trusted base and is listed in every evidence file
// (scan of `external_body` / `assume_specification` / `uninterp`).
#![allow(unused_imports, dead_code, unused_variables, non_camel_case_types, non_snake_case, unreachable_patterns, unused_parens, unused_braces, non_upper_case_globals)]
use vstd::prelude::*;
verus! {

// R5: panic!(..) -> vx_panic(..): "does not return normally".
#[verifier::external_body]
pub fn vx_panic<A>(m: &str) -> (r: A)
    ensures false
{
    panic!("{}", m)
}

// "t is a value Default::default() may return" (for payload types the corpus does not fix)
pub open spec fn is_default<T: Default>(t: T) -> bool {
    call_ensures(T::default, (), t)
}

// corpus payload type with a non-zero Default (so that "defaulted" is distinguishable from "zeroed")
#[derive(Clone, Copy, PartialEq, Eq)]
pub struct Tag(pub u8);
impl Default for Tag {
    fn default() -> (r: Tag)
        ensures r == Tag(7u8)
    { Tag(7u8) }
}

} // verus!
