// Hand-written Verus prelude, included verbatim at the top of every generated file.
// Everything here is part of the trusted base and is listed in every evidence file
// (scan of `external_body` / `assume_specification` / `uninterp`).
#![allow(unused_imports, dead_code, unused_variables, non_camel_case_types, non_snake_case, unreachable_patterns, unused_parens, unused_braces, non_upper_case_globals)]
use vstd::prelude::*;
use vstd::std_specs::fmt::*;
verus! {

// R5: panic!(..) -> vx_panic(..): "does not return normally".
#[verifier::external_body]
pub fn vx_panic<A>(m: &str) -> (r: A)
    ensures false
{
    panic!("{}", m)
}

// "t is a value Default::default() may return" (for payload types the corpus does not fix)
pub open spec fn is_default<T: Default>(t: T) -> bool {
    call_ensures(T::default, (), t)
}

// corpus payload type with a non-zero Default (so that "defaulted" is distinguishable from "zeroed")
#[derive(Clone, Copy, PartialEq, Eq)]
pub struct Tag(pub u8);
impl Default for Tag {
    fn default() -> (r: Tag)
        ensures r == Tag(7u8)
    { Tag(7u8) }
}


// ---- strings ---------------------------------------------------------------------------
// C12's "folding only the ASCII letters A-Z/a-z", written out.
pub open spec fn fold_char(c: char) -> char {
    if 'A' <= c && c <= 'Z' { ((c as u8) + 32u8) as char } else { c }
}
pub open spec fn fold(s: Seq<char>) -> Seq<char> {
    s.map_values(|c: char| fold_char(c))
}
// Assumed std contract (cross-checked at bounded length against the real std code by the Kani C12 harness).
pub assume_specification[ str::eq_ignore_ascii_case ](a: &str, b: &str) -> (r: bool)
    ensures r == (fold(a@) == fold(b@));

// str extensionality: a str is determined by its characters.  Verus keeps two notions apart - the value equality it uses for a
// literal `match` arm / `s == "lit"` in specs, and equality of views, which is what exec `a == b` and eq_ignore_ascii_case talk
// about - and has no rule connecting them; without one a template that compares with `if s == "lit"` instead of `match` could not
// be verified against the same contract.  Assumed (broadcast in every program module); the per-file canary guards against an
// inconsistent prelude.
pub mod vx_axioms {
    use super::*;
    pub broadcast proof fn axiom_str_ext(a: &str, b: &str)
        requires a@ == b@,
        ensures #![trigger a@, b@] a == b
    { admit(); }
}

// Plausible replacements for the calls the templates make get *uninterpreted* results, so that a changed
// template fails an obligation instead of tripping "unsupported".
pub uninterp spec fn vx_lower(s: Seq<char>) -> Seq<char>;
pub uninterp spec fn vx_upper(s: Seq<char>) -> Seq<char>;
pub uninterp spec fn vx_trim(s: Seq<char>) -> Seq<char>;
pub assume_specification[ str::to_lowercase ](a: &str) -> (r: String) ensures r@ == vx_lower(a@);
pub assume_specification[ str::to_uppercase ](a: &str) -> (r: String) ensures r@ == vx_upper(a@);
pub assume_specification[ str::to_ascii_lowercase ](a: &str) -> (r: String) ensures r@ == fold(a@);
pub assume_specification[ str::trim ](a: &str) -> (r: &str) ensures r@ == vx_trim(a@);

// Corpus capture type for `default` variants: a String newtype whose From<&str> keeps the input verbatim.
pub struct Cap(pub String);
pub uninterp spec fn cap_of(s: Seq<char>) -> Cap;
impl vstd::std_specs::convert::FromSpecImpl<&str> for Cap {
    open spec fn obeys_from_spec() -> bool { true }
    open spec fn from_spec(s: &str) -> Cap { cap_of(s@) }
}
impl ::core::convert::From<&str> for Cap {
    #[verifier::external_body]
    fn from(s: &str) -> (r: Cap) { Cap(s.to_string()) }
}

// Corpus fixtures for C18 / default_with (their Rust twins live in the corpus crate's lib.rs)
pub struct PErr(pub String);
pub uninterp spec fn err_spec(s: Seq<char>) -> PErr;
pub fn dw_u8() -> (r: u8) ensures r == 5u8 { 5 }
pub fn dw_i32() -> (r: i32) ensures r == -3i32 { -3 }
pub fn dw_tag() -> (r: Tag) ensures r == Tag(9u8) { Tag(9) }

// ---- formatter ghost model (C03 / C11 / C17) ---------------------------------------------
// fmt_out: everything written so far; fmt_spec: the caller's width/fill/align/precision/flags as one opaque value.
pub uninterp spec fn fmt_out(f: &core::fmt::Formatter) -> Seq<char>;
pub uninterp spec fn fmt_spec(f: &core::fmt::Formatter) -> int;
pub uninterp spec fn pad_str(s: Seq<char>, spec: int) -> Seq<char>;
pub uninterp spec fn pad_ok(s: Seq<char>, spec: int, pre: Seq<char>) -> bool;
// "formatted exactly as the &str `s` would be, honouring the caller's format spec"
pub open spec fn str_fmt_post(s: Seq<char>, fo: &core::fmt::Formatter, ff: &core::fmt::Formatter, r: core::result::Result<(), core::fmt::Error>) -> bool {
    fmt_spec(ff) == fmt_spec(fo)
    && ((r is Ok) == pad_ok(s, fmt_spec(fo), fmt_out(fo)))
    && fmt_out(ff) == fmt_out(fo) + pad_str(s, fmt_spec(fo))
}
pub assume_specification[ <str as core::fmt::Display>::fmt ](s: &str, f: &mut core::fmt::Formatter<'_>) -> (r: core::result::Result<(), core::fmt::Error>)
    ensures str_fmt_post(s@, old(f), final(f), r);
// Formatter::pad is what `<str as Display>::fmt` calls: the same effect
pub assume_specification<'a>[ core::fmt::Formatter::<'a>::pad ](f: &mut core::fmt::Formatter<'a>, s: &str) -> (r: core::result::Result<(), core::fmt::Error>)
    ensures str_fmt_post(s@, old(f), final(f), r);
// writing without padding: a different effect, so that "wrote the name with write_str" is not "formatted like a &str"
pub assume_specification<'a>[ core::fmt::Formatter::<'a>::write_str ](f: &mut core::fmt::Formatter<'a>, s: &str) -> (r: core::result::Result<(), core::fmt::Error>)
    ensures fmt_spec(final(f)) == fmt_spec(old(f)), fmt_out(final(f)) == fmt_out(old(f)) + s@;

// Cap's Display / AsRef<str> fixtures: the effect of the inner value's own impl, as an opaque relation / value
pub uninterp spec fn cap_fmt_post(c: Cap, fo: &core::fmt::Formatter, ff: &core::fmt::Formatter, r: core::result::Result<(), core::fmt::Error>) -> bool;
pub uninterp spec fn cap_str(c: Cap) -> Seq<char>;
impl core::fmt::Display for Cap {
    #[verifier::external_body]
    fn fmt(&self, f: &mut core::fmt::Formatter<'_>) -> (r: core::result::Result<(), core::fmt::Error>)
        ensures cap_fmt_post(*self, old(f), final(f), r)
    { core::fmt::Display::fmt(self.0.as_str(), f) }
}
impl DisplaySpecImpl for Cap {
    open spec fn fmt_req(&self, f: &core::fmt::Formatter<'_>) -> bool { true }
}
impl core::convert::AsRef<str> for Cap {
    #[verifier::external_body]
    fn as_ref(&self) -> (r: &str)
        ensures r@ == cap_str(*self)
    { self.0.as_str() }
}

// Mirror of strum::ParseError (the corpus crate holds a rustc obligation that the real enum has exactly
// this one variant); R11 re-points `::strum::` at this module.
pub mod strum {
    #[derive(Clone, Copy, PartialEq, Eq)]
    pub enum ParseError { VariantNotFound }
}

} // verus!
