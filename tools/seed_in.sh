#!/bin/bash
# seed_in.sh <PROP> <X>: confirm + store + run the property's quick check against the seeded change
P=$1; X=$2
tools/confirm_seed.sh /tmp/wt_$P $X $P-$X $P 2>&1 | grep -E "demo passes|demo fails|suite with|does not apply"
echo '{"property": "'$P'", "source": "independent sub-agent, given only the property text and a scratch worktree", "confirmed": "patch applies; workspace suite passes apart from the demo; demo fails with the change and passes without (tools/confirm_seed.sh)"}' > seeded/$P-$X/meta.json
tools/run_seeded.py $P-$X 2>&1 | grep -E "^==|^VIOL|^UNDEC" | head -4
