#!/bin/bash
P=$1; X=$2; R=$3; ID=$P-r$R$X
tools/confirm_seed.sh /tmp/wt${R}_$P $X $ID $P 2>&1 | grep -E "demo passes|demo fails|suite with|does not apply"
echo '{"property": "'$P'", "source": "independent sub-agent (round '$R'), given only the property text and a scratch worktree", "confirmed": "patch applies; workspace suite passes apart from the demo; demo fails with the change and passes without (tools/confirm_seed.sh)"}' > seeded/$ID/meta.json
tools/run_seeded.py $ID 2>&1 | grep -E "^==|^VIOL|^UNDEC" | head -3
