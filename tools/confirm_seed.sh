#!/bin/bash
# confirm_seed.sh <worktree> <X> <id> <property>: confirm an agent's seeded change in its scratch worktree, then store it under /verif/seeded/<id>
WT=$1; X=$2; ID=$3; PROP=$4
set -u
cd $WT || exit 2
git checkout -q -- . ; rm -f strum_tests/tests/seeded_demo_*.rs
cp seeded/$X/demo.rs strum_tests/tests/seeded_demo_$X.rs
# without the change: demo must pass
if (cd strum_tests && cargo test --offline --test seeded_demo_$X 2>&1 | tail -5 | grep -q "test result: ok"); then echo "demo passes without change: yes"; else echo "demo passes without change: NO"; fi
git apply seeded/$X/patch.diff || { echo "patch does not apply"; exit 2; }
OUT=$(cargo test --workspace --no-fail-fast --offline 2>&1)
FAILED=$(echo "$OUT" | grep -E "^test .* FAILED|^error" | grep -v seeded_demo | head -5)
DEMOFAIL=$(echo "$OUT" | grep -E "seeded_demo_$X|could not compile" | head -3)
NPASS=$(echo "$OUT" | grep -E "^test result" | awk '{p+=$4; f+=$6} END {print p" passed "f" failed"}')
echo "suite with change: $NPASS"; echo "other failures: [$FAILED]"
if echo "$OUT" | grep -q "test result: FAILED"; then echo "demo fails with change: yes"; else echo "demo fails with change: NO"; fi
git checkout -q -- . ; rm -f strum_tests/tests/seeded_demo_$X.rs
mkdir -p /verif/seeded/$ID
cp seeded/$X/patch.diff /verif/seeded/$ID/patch.diff; cp seeded/$X/demo.rs /verif/seeded/$ID/demo.rs; cp seeded/$X/notes.txt /verif/seeded/$ID/notes.txt
