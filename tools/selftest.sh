#!/bin/bash
# Regression of the machinery itself (not a registered check): every seeded change must be reported (exit 1) by its property's
# quick check, every behaviour-preserving refactoring must leave the relevant checks at exit 0.  Applies patches to /repo and undoes them.
cd "$(dirname "$0")/.."
REPO=${VX_REPO:-/repo}
declare -A REF=( [r1]="C04 C05 C08" [r2]="C06" [r3]="C01 C18 C11" [r4]="C03 C17" [r5]="C03" [r6]="C10" [r7]="C14" [r8]="C13" [b1]="C04 C05 C08" [b2]="C06" [b3]="C01 C18 C11" [b4]="C03 C17 C11" [b5]="C03" [b6]="C10" [b7]="C14 C15" [b8]="C13 C09" )
bad=0
for d in seeded/C*; do
  id=$(basename $d); p=$(python3 -c "import json;print(json.load(open('$d/meta.json'))['property'])")
  rc=$(tools/run_seeded.py $id $p 2>/dev/null | tail -1 | python3 -c "import json,sys;print(list(json.load(sys.stdin).values())[0])")
  exp=$(python3 -c "import json;print(json.load(open('$d/meta.json')).get('expected_exit', 1))")
  if [ "$rc" = "$exp" ]; then echo "ok   $id exit $rc"; else echo "MISS $id exit $rc (expected $exp)"; bad=1; fi
done
for k in "${!REF[@]}"; do
  for c in ${REF[$k]}; do
    BAK=$(mktemp -d work/vx_ev_XXXX); cp -r evidence $BAK/; git -C $REPO apply $PWD/seeded/refactors/$k.diff; ./check $c >/dev/null 2>&1; rc=$?; git -C $REPO checkout -- .; rm -rf evidence; cp -r $BAK/evidence evidence; rm -rf $BAK
    if [ $rc = 0 ]; then echo "ok   refactor $k $c exit 0"; else echo "ALARM refactor $k $c exit $rc"; bad=1; fi
  done
done
exit $bad
