#!/bin/bash
# run_refactor.sh <name> <PID...>: apply a behaviour-preserving refactoring (seeded/refactors/<name>.diff) to the repo, run checks (expected: exit 0), undo
K=$1; shift
cd "$(dirname "$0")/.."
REPO=${VX_REPO:-/repo}
BAK=$(mktemp -d work/vx_ev_XXXX); cp -r evidence $BAK/
git -C $REPO apply $PWD/seeded/refactors/$K.diff || { echo "apply failed $K"; exit 2; }
for c in "$@"; do ./check $c > /tmp/ref_${K}_$c.out 2>&1; echo "refactor $K $c exit $? $(tail -1 /tmp/ref_${K}_$c.out | cut -c1-110)"; grep -m3 "^UNDECIDED\|^VIOLATION\|^obligation failed" /tmp/ref_${K}_$c.out; done
git -C $REPO checkout -- .
rm -rf evidence; cp -r $BAK/evidence evidence; rm -rf $BAK
