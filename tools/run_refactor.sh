#!/bin/bash
# run_refactor.sh <K> <PID...>: apply a behaviour-preserving refactoring to /repo, run checks (expected: exit 0), undo
K=$1; shift
cd /verif
BAK=$(mktemp -d /verif/work/vx_ev_XXXX); cp -r evidence $BAK/
git -C /repo apply /verif/seeded/refactors/r$K.diff || { echo "apply failed $K"; exit 2; }
for c in "$@"; do ./check $c > /tmp/ref_${K}_$c.out 2>&1; echo "refactor $K $c exit $? $(tail -1 /tmp/ref_${K}_$c.out | cut -c1-110)"; grep -m2 "^UNDECIDED\|^VIOLATION" /tmp/ref_${K}_$c.out; done
git -C /repo checkout -- .
rm -rf evidence; cp -r $BAK/evidence evidence; rm -rf $BAK
