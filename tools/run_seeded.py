#!/usr/bin/env python3
"""Apply a seeded change to /repo, run the named checks, undo the change.  Usage: tools/run_seeded.py <seeded-id> [PID ...]
Never commits to /repo; /repo must be clean before and is clean after."""
import json, os, subprocess, sys
V = os.path.dirname(os.path.dirname(os.path.abspath(__file__)))
REPO = os.environ.get('VX_REPO', '/repo')   # a scratch worktree when run via `vp run --with-repo` (VX_REPO=$VP_RUN_REPO)
def sh(cmd, **kw):
    return subprocess.run(cmd, shell=True, stdout=subprocess.PIPE, stderr=subprocess.STDOUT, universal_newlines=True, **kw)
sid = sys.argv[1]
d = os.path.join(V, 'seeded', sid)
meta = json.load(open(os.path.join(d, 'meta.json')))
pids = sys.argv[2:] or [meta['property']]
if sh('git -C %s status --porcelain --untracked-files=no' % REPO).stdout.strip():
    print('refusing: %s has uncommitted changes' % REPO); sys.exit(2)
r = sh('git -C %s apply %s' % (REPO, os.path.join(d, 'patch.diff')))
if r.returncode != 0:
    print('patch does not apply:', r.stdout); sys.exit(2)
res = {}
import shutil, tempfile
bak = tempfile.mkdtemp(prefix='vx_ev_', dir=os.path.join(V, 'work'))
shutil.copytree(os.path.join(V, 'evidence'), os.path.join(bak, 'evidence'))
try:
    for pid in pids:
        tier = os.environ.get('TIER', 'quick')
        p = sh('./check %s --tier %s' % (pid, tier), cwd=V)
        lines = [l for l in p.stdout.splitlines() if l.startswith(('VIOLATION', 'obligation failed', pid + ':', 'UNDECIDED', 'KNOWN'))]
        res[pid] = p.returncode
        meta.setdefault('detected', {})[pid + ':' + tier] = {'exit': p.returncode, 'failed_obligations': [l.split('obligation failed: ')[1] for l in lines if l.startswith('obligation failed')][:4]}
        print('== %s on seeded/%s: exit %d' % (pid, sid, p.returncode))
        print('\n'.join(lines[:12]))
finally:
    sh('git -C %s checkout -- .' % REPO)
    # the evidence directory must describe runs on the unchanged tree only
    shutil.rmtree(os.path.join(V, 'evidence'))
    shutil.copytree(os.path.join(bak, 'evidence'), os.path.join(V, 'evidence'))
    shutil.rmtree(bak, ignore_errors=True)
notes = os.path.join(d, 'notes.txt')
if os.path.exists(notes) and 'needs' not in meta:
    meta['notes'] = open(notes).read()[:1500]
meta['ran'] = 'tools/run_seeded.py %s (git -C /repo apply patch.diff; ./check <ID> --tier <tier>; git -C /repo checkout -- .)' % sid
json.dump(meta, open(os.path.join(d, 'meta.json'), 'w'), indent=1)
print(json.dumps(res))
