"""E1: obtain the generated code from the real proc-macro.

A corpus crate (path-dependency on /repo/strum) is written with one module file per program and
built with STRUM_DEBUG=1; strum_macros/src/lib.rs `debug_print_generated` then prints the exact
TokenStream every derive entry point returns.  The printed text is lexed and split into items,
grouped per program by the program's unique name prefix (P<digits>).
"""
import os, re, shutil, subprocess, time
from . import rtok

REPO = os.environ.get('VX_REPO', '/repo')
VERIF = os.path.dirname(os.path.dirname(os.path.abspath(__file__)))
WORK = os.path.join(VERIF, 'work')

FIXTURES = '''
// corpus fixtures (not strum code): payload type with a non-zero Default, capture type, custom parse error, default_with functions
#[derive(Debug, Clone, Copy, PartialEq, Eq)] pub struct Tag(pub u8);
impl Default for Tag { fn default() -> Tag { Tag(7) } }
#[derive(Debug, Clone, PartialEq, Eq)] pub struct Cap(pub String);
impl From<&str> for Cap { fn from(s: &str) -> Cap { Cap(s.to_string()) } }
impl core::fmt::Display for Cap { fn fmt(&self, f: &mut core::fmt::Formatter) -> core::fmt::Result { core::fmt::Display::fmt(self.0.as_str(), f) } }
impl AsRef<str> for Cap { fn as_ref(&self) -> &str { self.0.as_str() } }
// allocation-free copy of the rejected input (length + first 8 bytes, copied by unrolled assignments - no loop, no hashing): a `String` payload makes
// Kani 0.68 report spurious dealloc checks on the empty input, and a hashing loop makes the twins several times slower
#[derive(Debug, Clone, Copy, PartialEq, Eq)] pub struct PErr { pub len: usize, pub head: [u8; 8] }
// call counter for C18 ("f is not invoked for inputs that match"); a plain static: an AtomicUsize also triggers the Kani artifact
#[allow(static_mut_refs)] static mut PERR_CALLS_RAW: usize = 0;
pub fn perr_calls() -> usize { unsafe { PERR_CALLS_RAW } }
pub fn perr(s: &str) -> PErr {
    unsafe { PERR_CALLS_RAW = PERR_CALLS_RAW.wrapping_add(1); }
    let b = s.as_bytes();
    let mut head = [0u8; 8];
    // unrolled on purpose: no loop to unwind, and no (possibly empty) slice copy - `copy_from_slice` on an empty slice makes Kani 0.68
    // report pointer-offset checks on a dangling pointer
    if b.len() > 0 { head[0] = b[0]; }
    if b.len() > 1 { head[1] = b[1]; }
    if b.len() > 2 { head[2] = b[2]; }
    if b.len() > 3 { head[3] = b[3]; }
    if b.len() > 4 { head[4] = b[4]; }
    if b.len() > 5 { head[5] = b[5]; }
    if b.len() > 6 { head[6] = b[6]; }
    if b.len() > 7 { head[7] = b[7]; }
    PErr { len: b.len(), head }
}
pub fn dw_u8() -> u8 { 5 }
pub fn dw_i32() -> i32 { -3 }
pub fn dw_tag() -> Tag { Tag(9) }
// strum::ParseError has exactly the variant the Verus mirror declares (exhaustive match without wildcard)
const _: fn(strum::ParseError) = |e| match e { strum::ParseError::VariantNotFound => () };
'''

PROG_RE = re.compile(r'^(P\d{3,5})[A-Za-z_]')

class BuildFailure(Exception):
    def __init__(self, msg, stderr):
        Exception.__init__(self, msg)
        self.stderr = stderr

def cargo_env(extra=None):
    env = dict(os.environ)
    env['CARGO_NET_OFFLINE'] = 'true'
    env['CARGO_TARGET_DIR'] = os.path.join(WORK, 'target')
    env.pop('RUSTFLAGS', None)
    env.pop('RUSTUP_TOOLCHAIN', None)
    if extra:
        env.update(extra)
    return env

def copy_lock(crate_dir):
    """Pin the dependency versions to the repository's lock file (a `git worktree` snapshot has none: Cargo.lock is untracked there)."""
    for cand in (os.path.join(REPO, 'Cargo.lock'), '/repo/Cargo.lock'):
        if os.path.exists(cand):
            shutil.copy(cand, os.path.join(crate_dir, 'Cargo.lock'))
            return

def write_crate(crate_dir, pkg, programs, features=(), extra_lib='', dep_features=('derive',), crate_attrs=''):
    src = os.path.join(crate_dir, 'src')
    if os.path.isdir(src):
        shutil.rmtree(src)
    os.makedirs(src)
    feats = ', '.join('"%s"' % f for f in dep_features)
    with open(os.path.join(crate_dir, 'Cargo.toml'), 'w') as f:
        f.write('[package]\nname = "%s"\nversion = "0.0.0"\nedition = "2021"\n\n'
                '[dependencies]\nstrum = { path = "%s/strum", features = [%s] }\n\n'
                '[lints.rust]\nunexpected_cfgs = { level = "allow" }\n\n[workspace]\n' % (pkg, REPO, feats))
    copy_lock(crate_dir)
    lib = [crate_attrs, '#![allow(dead_code, unused_imports, unused_variables, non_camel_case_types, deprecated, unreachable_patterns, non_snake_case)]']
    for p in programs:
        mod = p.name_mod()
        lib.append('pub mod %s;' % mod)
        with open(os.path.join(src, mod + '.rs'), 'w') as f:
            f.write(p.module_source())
    lib.append(FIXTURES)
    lib.append(extra_lib)
    with open(os.path.join(src, 'lib.rs'), 'w') as f:
        f.write('\n'.join(lib) + '\n')

def _run_build(crate_dir, profile_args=()):
    t0 = time.time()
    # touch lib.rs so that rustc (and the derives) always re-run
    os.utime(os.path.join(crate_dir, 'src', 'lib.rs'), None)
    p = subprocess.run(['cargo', 'build', '--offline', '--quiet'] + list(profile_args), cwd=crate_dir,
                       env=cargo_env({'STRUM_DEBUG': '1'}), stdout=subprocess.PIPE, stderr=subprocess.PIPE,
                       universal_newlines=True)
    return p.returncode, p.stdout, p.stderr, time.time() - t0

_ERR_FILE_RE = re.compile(r'-->\s+src/(p\d{3,5})\.rs:(\d+)')

def build_and_expand(crate_dir, pkg, programs, log, **kw):
    """Returns (items_by_program, rejected) where rejected maps program name -> rustc message.
    Programs rejected by rustc are removed and the rest rebuilt (at most 4 rounds)."""
    rejected = {}
    live = list(programs)
    for _round in range(5):
        write_crate(crate_dir, pkg, live, **kw)
        rc, out, err, dt = _run_build(crate_dir)
        log('corpus build: rc=%d %.1fs programs=%d' % (rc, dt, len(live)))
        if rc == 0:
            break
        bad = {}
        blocks = re.split(r'\n(?=error)', err)
        for b in blocks:
            if not b.startswith('error'):
                continue
            m = _ERR_FILE_RE.search(b)
            if m:
                bad.setdefault(m.group(1), b.strip())
        if not bad:
            raise BuildFailure('corpus crate does not build and no program file is named in the diagnostics', err)
        nl = []
        for p in live:
            if p.name_mod() in bad:
                rejected[p.name] = bad[p.name_mod()]
            else:
                nl.append(p)
        live = nl
        if not live:
            return {}, rejected
    else:
        raise BuildFailure('corpus crate still failing after 5 rounds', err)
    return group_items(out, live), rejected

def group_items(stdout_text, programs):
    toks = rtok.parse(stdout_text)
    items = rtok.split_items(toks)
    by_prefix = {}
    for p in programs:
        by_prefix[PROG_RE.match(p.name).group(1)] = p.name
    out = {p.name: [] for p in programs}
    for it in items:
        key = None
        if it.kind in ('struct', 'enum'):
            m = PROG_RE.match(it.name)
            key = m.group(1) if m else None
        else:
            for t in _flat(it.toks[:-1] if it.kind == 'impl' else it.toks):
                if t.kind == 'ident':
                    m = PROG_RE.match(t.text)
                    if m:
                        key = m.group(1)
                        break
        if key is None or key not in by_prefix:
            raise rtok.LexError('expansion item not attributable to a corpus program: ' + rtok.render(it.toks[:10]))
        out[by_prefix[key]].append(it)
    return out

def _flat(toks):
    for t in toks:
        if isinstance(t, rtok.Group):
            for x in _flat(t.items):
                yield x
        else:
            yield t
