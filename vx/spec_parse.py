"""Contracts for the expansion of EnumString: C01 (sound + complete), C11 (default captures the input verbatim),
C12 (ASCII-only folding exactly where marked), C18 (custom parse error).

Shape (order-independent; no lemma is needed inside the generated body):
  E1  r is Ok(V ..)            ==> some spelling of V is hit by s, and V's payload is defaulted   (per enabled non-default V)
  E2  r is never Ok(disabled variant)
  E3  r is Ok(default variant) ==> nothing is hit and the captured value is cap_of(s@)           (or: r is Err ==> nothing hit, error as specified)
  E4  something is hit         ==> r is Ok(non-default variant)
  + lemma vx_disjoint: spellings of different variants cannot both be hit (witness computed from the model)
  + lemma vx_complete: E1..E4 and vx_disjoint imply the order-free statement of C01:
        hit_V(s) ==> r == Ok(V defaulted);  nothing hit ==> r == Ok(default(s)) / Err(e)
hit(V, p, s) is `s == p` for a case-sensitive variant and `fold(s@) == fold(p@)` for a case-insensitive one, where
case-insensitivity follows C12's rule (variant flag if present, else enum flag).
"""
from .assemble import Contract
from . import vspec, oracle
from .model import rs_str

DW = {  # default_with fixtures: name -> (type, verus value, rust body)
    'dw_u8': ('u8', '5u8', '5'),
    'dw_i32': ('i32', '(-3i32)', '-3'),
    'dw_tag': ('Tag', 'Tag(9u8)', 'Tag(9)'),
}

def hit_expr(lit, ci, s='s'):
    if ci:
        return '(fold(%s@) == fold(%s@))' % (s, rs_str(lit))
    return '(%s == %s)' % (s, rs_str(lit))

def hits_of(prog, v, s='s'):
    ci = oracle.is_ci(prog, v)
    return [hit_expr(p, ci, s) for p in oracle.spellings(prog, v)]

def payload_dw(prog, v):
    dw = {}
    if v.kind == 'tuple' and v.default_with:
        dw[0] = DW[v.default_with][1]
    if v.kind == 'named':
        for i, f in enumerate(v.fields):
            if f.default_with:
                dw[i] = DW[f.default_with][1]
    return dw

def default_variant(prog):
    for v in prog.enabled():
        if v.default:
            return v
    return None

def witness(p, q, folded):
    """Why two literals differ (after folding if `folded`): ('len', lp, lq) or ('idx', i)."""
    a = oracle.fold(p) if folded else p
    b = oracle.fold(q) if folded else q
    if a == b:
        return None
    if len(a) != len(b):
        return ('len', len(a), len(b))
    for i, (x, y) in enumerate(zip(a, b)):
        if x != y:
            return ('idx', i)

class Overlap(Exception):
    pass

def gen(prog, pid, found_err_ty=None):
    E = prog.name
    en = prog.enabled()
    dv = default_variant(prog)
    normal = [v for v in en if not v.default]
    disabled = [v for v in prog.variants if v.disabled]
    g_decl, g_use, where = prog.generics_decl, prog.generics_use, prog.where_clause
    tp = vspec.ty_use(prog)
    custom_err = prog.parse_err_ty is not None and dv is None
    err_ty = prog.parse_err_ty if custom_err else 'crate::strum::ParseError'
    expected_err_ty = err_ty
    if found_err_ty:
        # the lemma is stated over whatever error type the generated impl declares; that this is the type the property
        # demands is a separate (signature) obligation of the unit
        err_ty = found_err_ty

    pre = []
    for v in normal:
        pre.append('pub open spec fn h_%s(s: &str) -> bool { %s }' % (v.ident, ' || '.join(hits_of(prog, v))))
    pre.append('pub open spec fn h_any(s: &str) -> bool { %s }' % (' || '.join('h_%s(s)' % v.ident for v in normal) or 'false'))
    if prog.parse_err_fn is not None:
        # C18: "f is not invoked for inputs that match" is f's precondition; "f sees the caller's input unchanged" is its postcondition
        pre.append('#[verifier::external_body]\npub fn %s(s: &str) -> (r: PErr)\n    requires !h_any(s),\n    ensures r == err_spec(s@),\n{ unimplemented!() }' % prog.parse_err_fn)

    def clauses(rv):
        ok = '%s is Ok' % rv
        val = '%s->Ok_0' % rv
        cl = []
        for v in normal:
            cl.append(('sound_%s' % v.ident, '%s && %s is %s ==> h_%s(s) && %s' % (ok, val, v.ident, v.ident, vspec.variant_pred(prog, v, val, dw=payload_dw(prog, v)))))
        for v in disabled:
            cl.append(('never_disabled_%s' % v.ident, '%s ==> !(%s is %s)' % (ok, val, v.ident)))
        if dv is not None:
            cap = vspec.variant_pred(prog, dv, val, field_preds=lambda i, f, b: '%s == cap_of(s@)' % b)
            cl.append(('default_only_when_nothing_hit', '%s && %s is %s ==> !h_any(s) && %s' % (ok, val, dv.ident, cap)))
            cl.append(('never_err_with_default', '!(%s is Err)' % rv))
            cl.append(('hit_never_lost', 'h_any(s) ==> %s && !(%s is %s)' % (ok, val, dv.ident)))
        else:
            exp = 'err_spec(s@)' if custom_err else 'crate::strum::ParseError::VariantNotFound'
            if found_err_ty and found_err_ty.split('::')[-1].strip() != expected_err_ty.split('::')[-1].strip():
                exp = None
            cl.append(('err_only_when_nothing_hit', ('%s is Err ==> !h_any(s) && %s->Err_0 == %s' % (rv, rv, exp)) if exp else ('%s is Err ==> !h_any(s)' % rv)))
            cl.append(('hit_never_lost', 'h_any(s) ==> %s' % ok))
        return cl

    props = ['C01', 'C11', 'C12', 'C18']
    plan = {}
    plan[(E, 'FromStr', 'from_str')] = Contract(ensures=clauses('r'), props=props)
    plan[(E, 'TryFrom', 'try_from')] = Contract(
        ensures=clauses('r'), props=props,
        body_subst=[([['::', 'core', '::', 'str', '::', 'FromStr', '::', 'from_str'],
                      ['<', 'Self', 'as', '::', 'core', '::', 'str', '::', 'FromStr', '>', '::', 'from_str'],
                      ['<', 'Self', 'as', 'core', '::', 'str', '::', 'FromStr', '>', '::', 'from_str'],
                      ['<', 'Self', 'as', 'FromStr', '>', '::', 'from_str'],
                      ['core', '::', 'str', '::', 'FromStr', '::', 'from_str'],
                      ['FromStr', '::', 'from_str'],
                      ['Self', '::', 'from_str']], 'Self :: from_str')])

    # ---- lemmas ---------------------------------------------------------------------------
    lits = []
    proof = []
    pair_claims = []
    overlaps = {}        # variant ident -> idents of variants it shares an input with (only in programs tagged 'overlap')
    for i, v in enumerate(normal):
        for w in normal[i + 1:]:
            civ, ciw = oracle.is_ci(prog, v), oracle.is_ci(prog, w)
            clash = False
            for p in oracle.spellings(prog, v):
                for q in oracle.spellings(prog, w):
                    if witness(p, q, civ or ciw) is None:
                        clash = True
            if clash:
                if 'overlap' not in prog.tags:
                    raise Overlap('%s: spellings of %s and %s overlap' % (prog.name, v.ident, w.ident))
                overlaps.setdefault(v.ident, []).append(w.ident)
                overlaps.setdefault(w.ident, []).append(v.ident)
                continue
            for p in oracle.spellings(prog, v):
                for q in oracle.spellings(prog, w):
                    folded = civ or ciw
                    wit = witness(p, q, folded)
                    for l in (p, q):
                        if l not in lits:
                            lits.append(l)
                    A = ('fold(%s@)' if folded else '%s@') % rs_str(p)
                    B = ('fold(%s@)' if folded else '%s@') % rs_str(q)
                    if wit[0] == 'len':
                        proof.append('    assert(%s.len() == %d && %s.len() == %d);' % (A, wit[1], B, wit[2]))
                    else:
                        proof.append('    assert(%s[%d] != %s[%d]);' % (A, wit[1], B, wit[1]))
            pair_claims.append('!(h_%s(s) && h_%s(s))' % (v.ident, w.ident))
    lem = []
    body = ''.join('    reveal_strlit(%s);\n' % rs_str(l) for l in lits) + '\n'.join(proof)
    lem.append('// @@FN vx_disjoint\nproof fn vx_disjoint(s: &str)\n    ensures %s\n{\n%s\n}\n// @@END vx_disjoint' % (
        ',\n        '.join(pair_claims) if pair_claims else 'true', body))
    # order-free statement
    concl = []
    for v in normal:
        # where two variants share an input (overlapping programs) the property does not say which one wins for that input
        guard = ''.join(' && !h_%s(s)' % w for w in overlaps.get(v.ident, []))
        concl.append('h_%s(s)%s ==> r is Ok && %s' % (v.ident, guard, vspec.variant_pred(prog, v, 'r->Ok_0', dw=payload_dw(prog, v))))
    if dv is not None:
        concl.append('!h_any(s) ==> r is Ok && %s' % vspec.variant_pred(prog, dv, 'r->Ok_0', field_preds=lambda i, f, b: '%s == cap_of(s@)' % b))
    else:
        exp = 'err_spec(s@)' if custom_err else 'crate::strum::ParseError::VariantNotFound'
        if found_err_ty and found_err_ty.split('::')[-1].strip() != expected_err_ty.split('::')[-1].strip():
            concl.append('!h_any(s) ==> r is Err')
        else:
            concl.append('!h_any(s) ==> r is Err && r->Err_0 == %s' % exp)
    lem.append('// @@FN vx_complete\nproof fn vx_complete%s(s: &str, r: ::core::result::Result<%s, %s>) %s\n    requires\n        %s,\n    ensures\n        %s,\n{\n    vx_disjoint(s);\n}\n// @@END vx_complete' % (
        g_decl, tp, err_ty, where, ',\n        '.join(t for _, t in clauses('r')), ',\n        '.join(concl)))
    # reachability: from_str and try_from are callable on any string (no precondition) and a declared spelling hits
    clean = [v for v in normal if v.ident not in overlaps]
    if clean:
        v0 = clean[0]
        sp0 = oracle.spellings(prog, v0)[0]
        lem.append('// @@FN vx_reach_parse\nfn vx_reach_parse%s() %s\n{\n    let r = %s::from_str(%s);\n    proof { vx_complete(%s, r); }\n    assert(h_%s(%s));\n    assert(r is Ok && r->Ok_0 is %s);\n    let t = %s::try_from(%s);\n}\n// @@END vx_reach_parse' % (
            g_decl, where, vspec.ty_path(prog), rs_str(sp0), rs_str(sp0), v0.ident, rs_str(sp0), v0.ident, vspec.ty_path(prog), rs_str(sp0)))
    return '\n'.join(pre), plan, {}, '\n'.join(lem)

# ---------------------------------------------------------------------------------------
# Kani twin (bounded: all valid UTF-8 byte strings of length <= L) on the real derive and the real std

def max_len(prog):
    m = 0
    for v in prog.enabled():
        if not v.default:
            for p in oracle.spellings(prog, v):
                m = max(m, len(p.encode('utf-8')))
    return m

def rust_expected(prog, inst):
    """Body of `fn expected(s: &str) -> Result<En, Err>` printed from the model (oracle)."""
    dv = default_variant(prog)
    lines = []
    for v in prog.enabled():
        if v.default:
            continue
        ci = oracle.is_ci(prog, v)
        val = rust_value(prog, v)
        for p in oracle.spellings(prog, v):
            cond = 'fold_eq(s, %s)' % rs_str(p) if ci else 's.as_bytes() == %s.as_bytes()' % rs_str(p)
            lines.append('        if %s { return Ok(%s); }' % (cond, val))
    if dv is not None:
        if dv.kind == 'tuple':
            lines.append('        Ok(%s::%s(Cap::from(s)))' % (prog.name, dv.ident))
        else:
            lines.append('        Ok(%s::%s { %s: Cap::from(s) })' % (prog.name, dv.ident, dv.fields[0].name))
    elif prog.parse_err_fn is not None:
        lines.append('        Err(%s(s))' % prog.parse_err_fn)
    else:
        lines.append('        Err(strum::ParseError::VariantNotFound)')
    return '\n'.join(lines)

def rust_value(prog, v):
    path = '%s::%s' % (prog.name, v.ident)
    if v.kind == 'unit':
        return path
    if v.kind == 'tuple':
        if v.default_with:
            return '%s(%s())' % (path, v.default_with)
        return '%s(%s)' % (path, ', '.join('Default::default()' for _ in v.fields))
    return '%s { %s }' % (path, ', '.join('%s: %s' % (f.name, (f.default_with + '()') if f.default_with else 'Default::default()') for f in v.fields))

FOLD_EQ = '''    // independent byte-wise ASCII fold (oracle for C12): only A-Z are mapped; all other bytes compared exactly
    fn fold_b(b: u8) -> u8 { if b >= b'A' && b <= b'Z' { b + 32 } else { b } }
    fn fold_eq(a: &str, b: &str) -> bool {
        let (a, b) = (a.as_bytes(), b.as_bytes());
        if a.len() != b.len() { return false; }
        let mut i = 0;
        while i < a.len() { if fold_b(a[i]) != fold_b(b[i]) { return false; } i += 1; }
        true
    }
'''

def kani_module(prog, L=None, extra=''):
    E = prog.name
    inst = vspec.rust_inst(prog)
    L = L if L is not None else min(max_len(prog) + 1, 8)
    dv = default_variant(prog)
    err_ty = prog.parse_err_ty if (prog.parse_err_ty and dv is None) else 'strum::ParseError'
    return '''
#[cfg(kani)]
mod vx_proofs {
    use super::*;
    type En = %(E)s%(inst)s;
    const L: usize = %(L)d;
%(fold)s
    fn expected(s: &str) -> Result<En, %(err)s> {
%(exp)s
    }
    #[kani::proof]
    #[kani::unwind(%(unw)d)]
    fn twin_from_str() {
        let bytes: [u8; L] = kani::any();
        let len: usize = kani::any();
        kani::assume(len <= L);
        if let Ok(s) = core::str::from_utf8(&bytes[..len]) {
            let c0 = perr_calls();
            let r = En::from_str(s);
            let c1 = perr_calls();
            // C18: the user's error function runs exactly once for a rejected input and never for an accepted one
            assert!(c1 - c0 == if r.is_err() && %(custom)s { 1 } else { 0 });
            assert!(r == expected(s));
            let d0 = perr_calls();
            let t = En::try_from(s);
            let d1 = perr_calls();
            assert!(t == r);
            assert!(d1 - d0 == if t.is_err() && %(custom)s { 1 } else { 0 });
        }
    }
    // same obligation restricted to ASCII inputs (cheaper for CBMC: used first when a counterexample is wanted)
    #[kani::proof]
    #[kani::unwind(%(unw)d)]
    fn twin_from_str_ascii() {
        let bytes: [u8; L] = kani::any();
        let len: usize = kani::any();
        kani::assume(len <= L);
        let mut i = 0;
        while i < L { kani::assume(bytes[i] < 0x80); i += 1; }
        if let Ok(s) = core::str::from_utf8(&bytes[..len]) {
            let c0 = perr_calls();
            let r = En::from_str(s);
            let c1 = perr_calls();
            assert!(c1 - c0 == if r.is_err() && %(custom)s { 1 } else { 0 });
            assert!(r == expected(s));
            let d0 = perr_calls();
            let t = En::try_from(s);
            let d1 = perr_calls();
            assert!(t == r);
            assert!(d1 - d0 == if t.is_err() && %(custom)s { 1 } else { 0 });
        }
    }
%(extra)s
}
''' % dict(E=E, inst=inst, L=L, fold=FOLD_EQ, exp=rust_expected(prog, inst), err=err_ty, unw=(max(L + 3, 10) if err_ty == 'PErr' else L + 3), extra=extra, custom=('true' if (prog.parse_err_fn and dv is None) else 'false'))

EQ_IGNORE_HARNESS = '''
    // cross-check of the assumed std contract `eq_ignore_ascii_case(a, b) == (fold(a) == fold(b))` on the real std code
    #[kani::proof]
    #[kani::unwind(7)]
    fn twin_eq_ignore_ascii_case() {
        let a: [u8; 5] = kani::any();
        let b: [u8; 5] = kani::any();
        let la: usize = kani::any();
        let lb: usize = kani::any();
        kani::assume(la <= 5 && lb <= 5);
        if let (Ok(x), Ok(y)) = (core::str::from_utf8(&a[..la]), core::str::from_utf8(&b[..lb])) {
            assert!(x.eq_ignore_ascii_case(y) == fold_eq(x, y));
        }
    }
    // the Unicode look-alikes named by C12 never fold onto ASCII letters
    #[kani::proof]
    #[kani::unwind(8)]
    fn twin_unicode_lookalikes() {
        assert!(!"k".eq_ignore_ascii_case("\\u{212a}"));
        assert!(!"K".eq_ignore_ascii_case("\\u{212a}"));
        assert!(!"s".eq_ignore_ascii_case("\\u{17f}"));
        assert!(!"i".eq_ignore_ascii_case("\\u{131}"));
        assert!(!"I".eq_ignore_ascii_case("\\u{130}"));
        assert!(!"ss".eq_ignore_ascii_case("\\u{df}"));
        assert!("\\u{df}".eq_ignore_ascii_case("\\u{df}"));
        assert!(!"\\u{e9}".eq_ignore_ascii_case("\\u{c9}"));
    }
'''
