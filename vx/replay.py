"""Replay of counterexamples against the real strum, natively, in debug and release profiles.

A replay program is an ordinary binary crate (path-dependency on /repo/strum) holding the corpus program and
a `main` printed from the counterexample; it prints lines `REPLAY-FAIL <what>` / `REPLAY-OK` itself.
"""
import json, os, shutil, subprocess
from . import expand

def build_and_run(workdir, program_src, main_src, features=('derive',), profiles=('debug', 'release')):
    if os.path.isdir(workdir):
        shutil.rmtree(workdir)
    os.makedirs(os.path.join(workdir, 'src'))
    feats = ', '.join('"%s"' % f for f in features)
    with open(os.path.join(workdir, 'Cargo.toml'), 'w') as f:
        f.write('[package]\nname = "vx_replay"\nversion = "0.0.0"\nedition = "2021"\n\n[dependencies]\n'
                'strum = { path = "%s/strum", features = [%s] }\n\n[profile.release]\noverflow-checks = false\n\n[workspace]\n' % (expand.REPO, feats))
    expand.copy_lock(workdir)
    with open(os.path.join(workdir, 'src', 'main.rs'), 'w') as f:
        f.write('#![allow(dead_code, unused_imports, unused_variables, non_camel_case_types, deprecated, unreachable_patterns, non_snake_case)]\n'
                + expand.FIXTURES +
                'mod prog {\n' + program_src.replace('#[cfg(kani)]', '#[cfg(any())]').replace('use crate::{', 'use super::{') + '\n}\nuse prog::*;\n' + main_src + '\n')
    results = {}
    for prof in profiles:
        args = ['cargo', 'run', '--offline', '--quiet'] + (['--release'] if prof == 'release' else [])
        p = subprocess.run(args, cwd=workdir, env=expand.cargo_env(), stdout=subprocess.PIPE, stderr=subprocess.PIPE, universal_newlines=True)
        results[prof] = {'rc': p.returncode, 'stdout': p.stdout[-4000:], 'stderr': p.stderr[-3000:]}
    return results

def failed(results):
    """A replay fails natively if any profile prints REPLAY-FAIL or dies (panic/abort)."""
    for prof, r in results.items():
        if 'REPLAY-FAIL' in r['stdout'] or (r['rc'] != 0 and 'error: could not compile' not in r['stderr'] and 'error[' not in r['stderr']):
            return True
    return False

def replay_file(pid, path):
    d = json.load(open(path))
    print('property: %s' % d.get('property'))
    print('failed obligation: %s  (%s)' % (d.get('obligation'), ', '.join(d.get('kinds') or [])))
    rp = d.get('replay_program')
    if not rp:
        print('no failing input recorded for this obligation (verifier output follows)')
        print((d.get('verifier_output') or '')[:4000])
        return 1
    workdir = os.path.join(expand.WORK, pid, 'replay_run')
    res = build_and_run(workdir, rp['program'], rp['main'], features=tuple(rp.get('features', ['derive'])))
    for prof, r in res.items():
        print('--- %s: rc=%s' % (prof, r['rc']))
        print(r['stdout'])
        if r['rc'] != 0:
            print(r['stderr'][-1500:])
    shutil.rmtree(workdir, ignore_errors=True)
    compile_fail = rp.get('expect_compiles') and any(r['rc'] != 0 and 'could not compile' in r['stderr'] for r in res.values())
    if failed(res) or compile_fail:
        print('replay: the input fails against the current /repo' + (' (the program, which the property promises to compile, is rejected)' if compile_fail else ''))
        return 1
    print('replay: the input does not fail against the current /repo')
    return 0
