"""Run Verus on single files (16-way) and turn its output into per-obligation verdicts."""
import json, os, re, subprocess, time
from concurrent.futures import ThreadPoolExecutor

VERUS = os.environ.get('VX_VERUS', 'verus')

class FileResult:
    def __init__(self, path):
        self.path = path
        self.status = None        # ok | failed | error (tool/compile error: undecided) | timeout
        self.functions = {}       # verus fn path -> dict(success, time_us, rlimit, mode)
        self.errors = []          # [dict(msg, lines=[int], labels=[str], text)]
        self.raw_err = ''
        self.wall = 0.0
        self.smt_ms = 0
        self.verified = 0
        self.n_errors = 0
        self.version = None

_ERR_HEAD = re.compile(r'^(error|warning|note)(\[[A-Z0-9]+\])?: (.*)$')
_LOC = re.compile(r'^\s*-->\s+(\S+?):(\d+):(\d+)')
_SRCLINE = re.compile(r'^\s*(\d+)\s*\|')
_LABEL = re.compile(r'// @@(\S+)')

def parse_stderr(text):
    """Split rustc-style diagnostics into blocks."""
    blocks = []
    cur = None
    for line in text.splitlines():
        m = _ERR_HEAD.match(line)
        if m:
            if cur:
                blocks.append(cur)
            cur = {'level': m.group(1), 'msg': m.group(3), 'lines': [], 'labels': [], 'text': [line]}
            continue
        if cur is None:
            continue
        cur['text'].append(line)
        m = _LOC.match(line)
        if m:
            cur['lines'].append(int(m.group(2)))
        m = _SRCLINE.match(line)
        if m:
            ln = int(m.group(1))
            if ln not in cur['lines']:
                cur['lines'].append(ln)
        for lab in _LABEL.findall(line):
            if lab not in cur['labels']:
                cur['labels'].append(lab)
    if cur:
        blocks.append(cur)
    for b in blocks:
        b['text'] = '\n'.join(b['text'])
    return blocks

def run_one(path, rlimit=None, timeout=600, extra=()):
    r = FileResult(path)
    cmd = [VERUS, os.path.basename(path), '--output-json', '--time', '--num-threads', '2', '--multiple-errors', '4']
    if rlimit:
        cmd += ['--rlimit', str(rlimit)]
    cmd += list(extra)
    t0 = time.time()
    try:
        p = subprocess.run(cmd, cwd=os.path.dirname(path), stdout=subprocess.PIPE, stderr=subprocess.PIPE,
                           universal_newlines=True, timeout=timeout)
    except subprocess.TimeoutExpired:
        r.status = 'timeout'
        r.wall = time.time() - t0
        return r
    r.wall = time.time() - t0
    r.raw_err = p.stderr
    try:
        d = json.loads(p.stdout)
    except Exception:
        r.status = 'error'
        r.errors = parse_stderr(p.stderr)
        return r
    vr = d.get('verification-results', {})
    r.verified = vr.get('verified', 0)
    r.n_errors = vr.get('errors', 0)
    r.version = d.get('verus', {}).get('version')
    tm = d.get('times-ms', {})
    smt = tm.get('smt', {})
    r.smt_ms = smt.get('smt-run', 0)
    for m in smt.get('smt-run-module-times', []):
        for f in m.get('function-breakdown', []):
            name = f['function']
            prev = r.functions.get(name)
            ent = {'success': bool(f.get('success')), 'time_us': f.get('time-micros', 0), 'rlimit': f.get('rlimit', 0),
                   'mode': f.get('mode:', f.get('mode'))}
            if prev:
                ent['success'] = ent['success'] and prev['success']
                ent['time_us'] += prev['time_us']
                ent['rlimit'] += prev['rlimit']
            r.functions[name] = ent
    r.errors = [b for b in parse_stderr(p.stderr) if b['level'] == 'error']
    if vr.get('encountered-vir-error') or (vr.get('encountered-error') and not r.functions and r.n_errors == 0):
        r.status = 'error'
    elif vr.get('success'):
        r.status = 'ok'
    else:
        # distinguish "verification failed" from "did not compile"
        r.status = 'failed' if (r.n_errors > 0 or any(not f['success'] for f in r.functions.values())) else 'error'
    return r

def run_many(paths, jobs=8, **kw):
    with ThreadPoolExecutor(max_workers=jobs) as ex:
        return list(ex.map(lambda p: run_one(p, **kw), paths))

def fn_ranges(text):
    """line ranges of the functions emitted by the assembler / spec generators: [(begin, end, ident)]."""
    out = []
    stack = []
    for i, line in enumerate(text.splitlines(), 1):
        s = line.strip()
        if s.startswith('// @@FN '):
            stack.append((i, s[8:].strip()))
        elif s.startswith('// @@END ') and stack:
            b, ident = stack.pop()
            out.append((b, i, ident))
    return out
