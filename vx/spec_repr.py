"""C06: contract for the expansion of FromRepr.

Oracle = rustc: the expected discriminant of variant V is written `S::V as R`, which Verus evaluates with the
compiler's own constant evaluation.  S is the enum itself when it is field-less and non-generic, else a
field-less shadow enum with the same variant list, #[repr] and `= expr` discriminants (printed from the model).
"""
from .assemble import Contract
from . import vspec

def repr_ty(prog):
    return prog.repr if prog.repr else 'usize'

def gen(prog):
    E = prog.name
    R = repr_ty(prog)
    # always a shadow enum in Verus: `as` casts in spec code need a Copy enum
    S = E + 'Shadow'
    pre = ['#[derive(Clone, Copy)]\n' + prog.shadow_enum(S)]
    en = prog.enabled()
    ens = []
    for v in en:
        ens.append(('some_%s' % v.ident, 'discriminant == (%s::%s as %s) ==> r is Some && %s' % (S, v.ident, R, vspec.variant_pred(prog, v, 'r->Some_0'))))
    none_cond = ' && '.join('discriminant != (%s::%s as %s)' % (S, v.ident, R) for v in en) or 'true'
    ens.append(('none_otherwise', '(%s) ==> r is None' % none_cond))
    plan = {(E, None, 'from_repr'): Contract(ensures=ens, props=['C06'])}
    # reachability / non-vacuity: the round trip for the first and last enabled variant
    lem = []
    if en:
        g_decl, where = prog.generics_decl, prog.where_clause
        calls = []
        for v in (en[0], en[-1]):
            calls.append('    let r = %s::from_repr(%s::%s as %s);\n    assert(r is Some && %s);' % (
                vspec.ty_path(prog), S, v.ident, R, vspec.variant_pred(prog, v, 'r->Some_0')))
        lem.append('// @@FN vx_reach_from_repr\nfn vx_reach_from_repr%s() %s\n{\n%s\n}\n// @@END vx_reach_from_repr' % (g_decl, where, '\n'.join(calls)))
    return '\n'.join(pre), plan, {}, '\n'.join(lem)

def kani_module(prog):
    E = prog.name
    R = repr_ty(prog)
    inst = vspec.rust_inst(prog)
    use_shadow = prog.has_payload() or bool(prog.generics_use)
    S = 'Shadow' if use_shadow else E
    shadow = prog.shadow_enum('Shadow').replace('pub enum', '#[allow(dead_code)] enum') if use_shadow else ''
    arms = ''.join('        if d == (%s::%s as %s) { return Some(%s); }\n' % (S, v.ident, R, vspec.rust_default_value(prog, v)) for v in prog.enabled())
    return '''
#[cfg(kani)]
mod vx_proofs {
    use super::*;
    type En = %(E)s%(inst)s;
    %(shadow)s
    // oracle: rustc's own `as` cast on the variant list printed from the declaration model
    fn expected(d: %(R)s) -> Option<En> {
%(arms)s        None
    }
    // Kani function contract on a thin forwarding wrapper of the real generated function, proved for every d of the repr type
    #[kani::ensures(|r: &Option<En>| *r == expected(d))]
    fn from_repr_contract(d: %(R)s) -> Option<En> { En::from_repr(d) }
    #[kani::proof_for_contract(from_repr_contract)]
    fn twin_from_repr() {
        let d: %(R)s = kani::any();
        from_repr_contract(d);
    }
}
''' % dict(E=E, inst=inst, shadow=shadow, R=R, arms=arms)
