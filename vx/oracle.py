"""Independent oracle for names and spellings, written from the property statements
(C01, C03, C07, C12, C13) and heck's documented word-splitting rule - not from strum_macros.
"""

# ---- word splitting (C07: "words are split at underscores and at lower-to-upper and
# acronym boundaries"; digits never start a word of their own) -------------------------

def split_words(ident):
    words = []
    for chunk in _split_nonalnum(ident):
        if not chunk:
            continue
        start = 0
        mode = 'boundary'   # boundary | lower | upper
        n = len(chunk)
        for i, c in enumerate(chunk):
            if i + 1 >= n:
                words.append(chunk[start:])
                break
            nxt = chunk[i + 1]
            if c.islower():
                next_mode = 'lower'
            elif c.isupper():
                next_mode = 'upper'
            else:
                next_mode = mode
            if next_mode == 'lower' and nxt.isupper():
                # fooBar -> foo | Bar
                words.append(chunk[start:i + 1])
                start = i + 1
                mode = 'boundary'
            elif mode == 'upper' and c.isupper() and nxt.islower():
                # XMLHttp -> XML | Http
                words.append(chunk[start:i])
                start = i
                mode = 'boundary'
            else:
                mode = next_mode
    return [w for w in words if w]

def _split_nonalnum(s):
    out = []
    cur = ''
    for ch in s:
        if ch.isalnum():
            cur += ch
        else:
            out.append(cur)
            cur = ''
    out.append(cur)
    return out

def _cap(w):
    return w[:1].upper() + w[1:].lower()

# accepted style strings -> canonical style (C07: documented values and legacy aliases)
STYLE_ALIASES = {
    'camelCase': 'camelCase',
    'PascalCase': 'PascalCase', 'camel_case': 'PascalCase',
    'kebab-case': 'kebab-case', 'kebab_case': 'kebab-case',
    'snake_case': 'snake_case', 'snek_case': 'snake_case',
    'SCREAMING_SNAKE_CASE': 'SCREAMING_SNAKE_CASE', 'shouty_snake_case': 'SCREAMING_SNAKE_CASE',
    'shouty_snek_case': 'SCREAMING_SNAKE_CASE',
    'SCREAMING-KEBAB-CASE': 'SCREAMING-KEBAB-CASE',
    'lowercase': 'lowercase',
    'UPPERCASE': 'UPPERCASE',
    'title_case': 'title_case',
    'mixed_case': 'mixed_case',
    'Train-Case': 'Train-Case',
}

# canonical style -> name of the CaseStyle variant in helpers/case_style.rs (used only by C07(a)
# to state the expected result of CaseStyle::from_str; the mapping is the documented one)
STYLE_VARIANT = {
    'camelCase': 'CamelCase', 'PascalCase': 'PascalCase', 'kebab-case': 'KebabCase',
    'snake_case': 'SnakeCase', 'SCREAMING_SNAKE_CASE': 'ShoutySnakeCase',
    'SCREAMING-KEBAB-CASE': 'ScreamingKebabCase', 'lowercase': 'LowerCase', 'UPPERCASE': 'UpperCase',
    'title_case': 'TitleCase', 'mixed_case': 'MixedCase', 'Train-Case': 'TrainCase',
}

def convert_case(style, ident):
    if style is None:
        return ident
    st = STYLE_ALIASES[style]
    if st == 'lowercase':
        return ident.lower()
    if st == 'UPPERCASE':
        return ident.upper()
    w = split_words(ident)
    if st == 'snake_case':
        return '_'.join(x.lower() for x in w)
    if st == 'kebab-case':
        return '-'.join(x.lower() for x in w)
    if st == 'SCREAMING_SNAKE_CASE':
        return '_'.join(x.upper() for x in w)
    if st == 'SCREAMING-KEBAB-CASE':
        return '-'.join(x.upper() for x in w)
    if st == 'PascalCase':
        return ''.join(_cap(x) for x in w)
    if st == 'title_case':
        return ' '.join(_cap(x) for x in w)
    if st == 'Train-Case':
        return '-'.join(_cap(x) for x in w)
    if st == 'mixed_case':
        return ''.join(x.lower() if i == 0 else _cap(x) for i, x in enumerate(w))
    if st == 'camelCase':
        p = ''.join(_cap(x) for x in w)
        return p[:1].lower() + p[1:]
    raise KeyError(style)

def snake_with_digits(ident):
    """C13 / C10: method and slot names are snake_case with digits split off as their own word."""
    s = convert_case('snake_case', ident)
    out = []
    for i, c in enumerate(s):
        if c.isdigit() and i != 0 and not s[i - 1].isdigit():
            out.append('_')
        out.append(c)
    return ''.join(out)

# ---- per-variant naming (C01, C03, C12) -------------------------------------------------

def spellings(prog, v):
    """C01: each serialize/to_string literal or, if V has none, V's identifier converted by serialize_all."""
    sp = list(v.serialize)
    if v.to_string is not None:
        sp.append(v.to_string)
    if not sp:
        sp.append(convert_case(prog.serialize_all, v.ident))
    return sp

def canonical_name(prog, v):
    """C03: to_string if present, else longest serialize (first among equals is not specified by the
    property, so the corpus uses distinct lengths), else converted identifier; prefix prepended."""
    if v.to_string is not None:
        n = v.to_string
    elif v.serialize:
        n = max(v.serialize, key=lambda s: len(s.encode('utf-8')))
    else:
        n = convert_case(prog.serialize_all, v.ident)
    if prog.prefix is not None:
        n = prog.prefix + n
    return n

def canonical_names(prog, v):
    """All strings the property allows as V's canonical name: exactly one unless several serialize literals tie for longest."""
    if v.to_string is not None or not v.serialize:
        return [canonical_name(prog, v)]
    m = max(len(s.encode('utf-8')) for s in v.serialize)
    out = []
    for s in v.serialize:
        if len(s.encode('utf-8')) == m and s not in out:
            out.append(s)
    return [(prog.prefix or '') + s if prog.prefix is not None else s for s in out]

def is_ci(prog, v):
    """C12: marked (or = true), or the enum is marked and the variant does not say = false."""
    if v.aci is not None:
        return v.aci
    return prog.aci

def fold(s):
    return ''.join(chr(ord(c) + 32) if 'A' <= c <= 'Z' else c for c in s)

def doc_text(v):
    """C14: doc comment with one leading space removed per line (single line as is, several lines
    each terminated by a newline) or None."""
    if not v.docs:
        return None
    lines = [d[1:] if d.startswith(' ') else d for d in v.docs]
    if len(lines) == 1:
        return lines[0]
    return ''.join(l + '\n' for l in lines)

def has_placeholder(name):
    s = name.replace('{{', '').replace('}}', '')
    return '{' in s or '}' in s
