"""Contracts for EnumDiscriminants (C09), EnumIs / EnumTryAs (C13), EnumMessage (C14), EnumProperty (C15),
VariantArray / VariantNames / COUNT agreement (C08)."""
from .assemble import Contract
from . import vspec, oracle
from .model import rs_str

# ---------------------------------------------------------------------------------------
# C09 EnumDiscriminants

def disc_name(prog):
    return prog.disc_name or (prog.name + 'Discriminants')

def disc_repr(prog):
    return prog.repr if prog.repr else 'isize'

def gen_disc(prog):
    E = prog.name
    D = disc_name(prog)
    R = disc_repr(prog)
    S = E + 'Shadow'
    pre = ['#[derive(Clone, Copy)]\n' + prog.shadow_enum(S)]
    def cl(valx):
        out = []
        for v in prog.variants:
            out.append(('same_variant_%s' % v.ident, '(%s is %s ==> r is %s && (r as %s) == (%s::%s as %s))' % (valx, v.ident, v.ident, R, S, v.ident, R)))
        return out
    plan = {}
    plan[(D, 'From<%s>' % E, 'from')] = Contract(ensures=cl('val'), props=['C09'], free=True, rename='%s_from' % D)
    plan[(D, 'From<&%s>' % E, 'from')] = Contract(ensures=cl('(*val)'), props=['C09'], free=True, rename='%s_from_ref' % D)
    plan[(E, 'IntoDiscriminant', 'discriminant')] = Contract(
        ensures=cl('(*self)'), props=['C09'],
        body_subst=[(['<', D, 'as', '::', 'core', '::', 'convert', '::', 'From', '<', '&', 'Self', '>', '>', '::', 'from'], '%s_from_ref' % D)])
    # the generated enum mirrors the declaration: same names in the same order, same `= expr`, same repr
    # (implied by integer equality of every variant with rustc as the oracle on both sides)
    eqs = ['(%s::%s as %s) == (%s::%s as %s)' % (D, v.ident, R, S, v.ident, R) for v in prog.variants]
    lem = '// @@FN vx_disc_shape\nproof fn vx_disc_shape()\n    ensures\n        %s,\n{ }\n// @@END vx_disc_shape' % ',\n        '.join(eqs)
    return '\n'.join(pre), plan, {}, lem

def kani_disc(prog, restricted_vis=False):
    """Twin on the real derive: for every variant (symbolic payload) the three conversions give the variant whose integer value is the
    declared enum's discriminant (rustc's `as` on a field-less shadow)."""
    from .spec_print import any_value
    E = prog.name
    D = disc_name(prog)
    R = disc_repr(prog)
    inst = vspec.rust_inst(prog)
    sh = prog.shadow_enum('Shadow').replace('pub enum', '#[allow(dead_code)] enum')
    out, hs = [], []
    for v in prog.variants:
        val = any_value(prog, v)
        if val is None:
            continue
        third = '' if restricted_vis else 'let c: %s = strum::IntoDiscriminant::discriminant(&v); assert!(c as %s == Shadow::%s as %s);' % (D, R, v.ident, R)
        out.append('''    #[kani::proof]
    fn disc_%s() {
        let v: En = %s;
        let a: %s = (&v).into();
        assert!(a as %s == Shadow::%s as %s);
        %s
        let b: %s = v.into();
        assert!(b as %s == Shadow::%s as %s);
    }''' % (v.ident, val, D, R, v.ident, R, third, D, R, v.ident, R))
        hs.append(('disc_' + v.ident, 'discriminant'))
    text = '\n#[cfg(kani)]\nmod vx_proofs {\n    use super::*;\n    type En = %s%s;\n    %s\n%s\n}\n' % (E, inst, sh, '\n'.join(out))
    return text, hs

# ---------------------------------------------------------------------------------------
# C13 EnumIs / EnumTryAs

def gen_is(prog):
    E = prog.name
    plan = {}
    for v in prog.enabled():
        sn = oracle.snake_with_digits(v.ident)
        if 'EnumIs' in prog.derives:
            plan[(E, None, 'is_' + sn)] = Contract(ensures=[('true_iff_variant', 'r == ((*self) is %s)' % v.ident)], props=['C13'])
        if 'EnumTryAs' in prog.derives and v.kind == 'tuple' and v.fields:
            n = len(v.fields)
            names = ['vx_f%d' % i for i in range(n)]
            pat = '%s::%s(%s)' % (E, v.ident, ', '.join(names))
            if n == 1:
                val = names[0]
                refc = '*(r->Some_0) == vx_f0'
            else:
                val = '(%s)' % ', '.join(names)
                refc = ' && '.join('*(r->Some_0.%d) == %s' % (i, nm) for i, nm in enumerate(names))
            plan[(E, None, 'try_as_' + sn)] = Contract(
                ensures=[('some_with_all_fields', '(self matches %s ==> r == Some(%s))' % (pat, val)),
                         ('none_otherwise', '(!(self is %s) ==> r is None)' % v.ident)], props=['C13'])
            plan[(E, None, 'try_as_%s_ref' % sn)] = Contract(
                ensures=[('some_with_all_fields', '((*self) matches %s ==> r is Some && %s)' % (pat, refc)),
                         ('none_otherwise', '(!((*self) is %s) ==> r is None)' % v.ident)], props=['C13'])
    # partition lemma over the finite variant set
    lem = ''
    if 'EnumIs' in prog.derives and prog.enabled() and len(prog.enabled()) <= 40:
        en = prog.enabled()
        tp = vspec.ty_use(prog)
        g_decl, where = prog.generics_decl, prog.where_clause
        calls = '\n'.join('    let b%d = x.is_%s();' % (i, oracle.snake_with_digits(v.ident)) for i, v in enumerate(en))
        cnt = ' + '.join('(if b%d { 1int } else { 0int })' % i for i in range(len(en)))
        is_en = ' || '.join('x is %s' % v.ident for v in en)
        lem = ('// @@FN vx_partition\nfn vx_partition%s(x: &%s) %s\n{\n%s\n    assert((%s) ==> (%s) == 1);\n    assert(!(%s) ==> (%s) == 0);\n}\n// @@END vx_partition' % (
            g_decl, tp, where, calls, is_en, cnt, is_en, cnt))
    return '', plan, {}, lem

def kani_is(prog):
    """try_as_*_mut on the real code: write through each returned &mut, the enum changes in that field only."""
    E = prog.name
    inst = vspec.rust_inst(prog)
    from .spec_print import ANY
    out = []
    hs = []
    for v in prog.enabled():
        if v.kind != 'tuple' or not v.fields or 'EnumTryAs' not in prog.derives:
            continue
        if any(f.ty not in ('u8', 'i32', 'bool', 'usize', 'T') for f in v.fields):
            continue
        sn = oracle.snake_with_digits(v.ident)
        n = len(v.fields)
        tys = ['u8' if f.ty == 'T' else f.ty for f in v.fields]
        decl = '\n'.join('        let a%d: %s = kani::any(); let b%d: %s = kani::any();' % (i, t, i, t) for i, t in enumerate(tys))
        mk = '%s::%s(%s)' % (E, v.ident, ', '.join('a%d' % i for i in range(n)))
        exp = '%s::%s(%s)' % (E, v.ident, ', '.join('b%d' % i for i in range(n)))
        if n == 1:
            wr = '*m = b0;'
            rd = 'assert!(*m == a0);'
        else:
            wr = ' '.join('*m.%d = b%d;' % (i, i) for i in range(n))
            rd = ' '.join('assert!(*m.%d == a%d);' % (i, i) for i in range(n))
        out.append('''    #[kani::proof]
    fn mut_%s() {
%s
        let mut e: En = %s;
        { let m = e.try_as_%s_mut().unwrap(); %s %s }
        assert!(e == %s);
    }''' % (sn, decl, mk, sn, rd, wr, exp))
        hs.append(('mut_' + sn, 'try_as_%s_mut' % sn))
        others = [w for w in prog.enabled() if w is not v and w.kind == 'unit']
        if others:
            out.append('''    #[kani::proof]
    fn mut_none_%s() {
        let mut e: En = %s::%s;
        assert!(e.try_as_%s_mut().is_none());
    }''' % (sn, E, others[0].ident, sn))
            hs.append(('mut_none_' + sn, 'try_as_%s_mut' % sn))
    # twins of the is_* / try_as_* contracts (stand in when the generated code leaves Verus' subset; thorough tier otherwise)
    from .spec_print import any_value
    twin_vs = prog.variants
    if len(twin_vs) > 40:
        # huge enums: twins for the variants at the boundaries of narrow integer types only (each still checks every predicate)
        idx = sorted(set(i for i in (0, 1, 127, 128, 254, 255, 256, len(twin_vs) - 1) if i < len(twin_vs)))
        twin_vs = [prog.variants[i] for i in idx]
    for v in twin_vs:
        val = any_value(prog, v)
        if val is None:
            continue
        checks = []
        for w in prog.enabled():
            sn = oracle.snake_with_digits(w.ident)
            if 'EnumIs' in prog.derives:
                checks.append('        assert!(v.is_%s() == %s);' % (sn, 'true' if w is v else 'false'))
            if 'EnumTryAs' in prog.derives and w.kind == 'tuple' and w.fields:
                checks.append('        assert!(v.try_as_%s_ref().is_some() == %s);' % (sn, 'true' if w is v else 'false'))
        if checks:
            out.append('    #[kani::proof]\n    fn is_%s() {\n        let v: En = %s;\n%s\n    }' % (v.ident, val, '\n'.join(checks)))
            hs.append(('is_' + v.ident, 'is_*/try_as_*_ref on %s' % v.ident))
    text = '\n#[cfg(kani)]\nmod vx_proofs {\n    use super::*;\n    type En = %s%s;\n%s\n}\n' % (E, inst, '\n'.join(out))
    return text, hs

# ---------------------------------------------------------------------------------------
# C14 EnumMessage

def opt_str_clause(cond, r, val):
    if val is None:
        return '(%s ==> %s is None)' % (cond, r)
    return '(%s ==> %s is Some && %s->Some_0 == %s)' % (cond, r, r, rs_str(val))

def gen_message(prog):
    E = prog.name
    plan = {}
    def per(f):
        out = []
        for v in prog.variants:
            val = None if v.disabled else f(v)
            out.append(('%s' % v.ident, opt_str_clause('(*self) is %s' % v.ident, 'r', val)))
        return out
    plan[(E, 'EnumMessage', 'get_message')] = Contract(ensures=per(lambda v: v.message), props=['C14'])
    plan[(E, 'EnumMessage', 'get_detailed_message')] = Contract(
        ensures=per(lambda v: v.detailed_message if v.detailed_message is not None else v.message), props=['C14'])
    plan[(E, 'EnumMessage', 'get_documentation')] = Contract(ensures=per(lambda v: oracle.doc_text(v)), props=['C14'])
    return '', plan, {}, ''

def kani_message(prog):
    """get_serializations contains a function-local static (outside Verus' subset, R9): decided by Kani on the real code."""
    E = prog.name
    inst = vspec.rust_inst(prog)
    from .spec_print import any_value
    out, hs = [], []
    for v in prog.variants:
        val = any_value(prog, v)
        if val is None:
            continue
        sp = oracle.spellings(prog, v)
        ml = max(len(x.encode('utf-8')) for x in sp)
        checks = '\n'.join('        assert!(ss[%d].as_bytes() == %s.as_bytes());' % (i, rs_str(s)) for i, s in enumerate(sp))
        out.append('''    #[kani::proof]
    #[kani::unwind(%d)]
    fn ser_%s() {
        let v: En = %s;
        let ss = v.get_serializations();
        assert!(ss.len() == %d);
%s
    }''' % (ml + 3, v.ident, val, len(sp), checks))
        hs.append(('ser_' + v.ident, 'get_serializations'))
        def opt(x):
            return 'None' if x is None else 'Some(%s)' % rs_str(x)
        m = None if v.disabled else v.message
        dm = None if v.disabled else (v.detailed_message if v.detailed_message is not None else v.message)
        doc = None if v.disabled else oracle.doc_text(v)
        lens = [len(x.encode('utf-8')) for x in (m, dm, doc) if x]
        out.append('''    #[kani::proof]
    #[kani::unwind(%d)]
    fn msg_%s() {
        let v: En = %s;
        assert!(v.get_message().map(|s| s.as_bytes()) == %s.map(|s: &str| s.as_bytes()));
        assert!(v.get_detailed_message().map(|s| s.as_bytes()) == %s.map(|s: &str| s.as_bytes()));
        assert!(v.get_documentation().map(|s| s.as_bytes()) == %s.map(|s: &str| s.as_bytes()));
    }''' % (max(lens + [1]) + 3, v.ident, val, opt(m), opt(dm), opt(doc)))
        hs.append(('msg_' + v.ident, 'get_message/get_detailed_message/get_documentation on %s' % v.ident))
    text = '\n#[cfg(kani)]\nmod vx_proofs {\n    use super::*;\n    type En = %s%s;\n%s\n}\n' % (E, inst, '\n'.join(out))
    return text, hs

# ---------------------------------------------------------------------------------------
# C15 EnumProperty

def gen_props(prog):
    E = prog.name
    plan = {}
    for getter, pytype in (('get_str', str), ('get_int', int), ('get_bool', bool)):
        ens = []
        for v in prog.variants:
            cond_v = '(*self) is %s' % v.ident
            if v.disabled:
                ens.append(('%s_disabled' % v.ident, '(%s ==> r is None)' % cond_v))
                continue
            mine = []
            for g in v.props:
                for k, val in g:
                    if type(val) is pytype:
                        mine.append((k, val))
            for k, val in mine:
                if pytype is str:
                    ens.append(('%s_%s' % (v.ident, k), '(%s && prop == %s ==> r is Some && r->Some_0 == %s)' % (cond_v, rs_str(k), rs_str(val))))
                elif pytype is int:
                    ens.append(('%s_%s' % (v.ident, k), '(%s && prop == %s ==> r == Some(%s))' % (cond_v, rs_str(k), ('(%di64)' % val))))
                else:
                    ens.append(('%s_%s' % (v.ident, k), '(%s && prop == %s ==> r == Some(%s))' % (cond_v, rs_str(k), 'true' if val else 'false')))
            none_cond = ' && '.join(['%s' % cond_v] + ['prop != %s' % rs_str(k) for k, _ in mine])
            ens.append(('%s_other_keys' % v.ident, '(%s ==> r is None)' % none_cond))
        plan[(E, 'EnumProperty', getter)] = Contract(ensures=ens, props=['C15'])
    return '', plan, {}, ''

def kani_props(prog):
    """Twins on the real derive: per variant (symbolic payload) and getter, every key declared anywhere in the enum plus unknown / case-changed
    keys is queried (a finite key set - the all-strings claim is Verus'; these twins stand in only when the generated code leaves Verus' subset)."""
    from .spec_print import any_value
    E = prog.name
    inst = vspec.rust_inst(prog)
    keys = []
    for v in prog.variants:
        for g in v.props:
            for k, _ in g:
                for kk in (k, k.upper(), k + 'x', k[:-1]):
                    if kk not in keys:
                        keys.append(kk)
    keys += ['', 'zz_unknown']
    ml = max(len(k.encode('utf-8')) for k in keys)
    for v in prog.variants:
        for g in v.props:
            for _, x in g:
                if isinstance(x, str):
                    ml = max(ml, len(x.encode('utf-8')))
    out, hs = [], []
    for v in prog.variants:
        val = any_value(prog, v)
        if val is None:
            continue
        for getter, pyt in (('get_str', str), ('get_int', int), ('get_bool', bool)):
            checks = []
            for k in keys:
                e = None
                if not v.disabled:
                    for g in v.props:
                        for kk, x in g:
                            if kk == k and type(x) is pyt and e is None:
                                e = x
                if pyt is str:
                    exp = 'None' if e is None else 'Some(%s.as_bytes())' % rs_str(e)
                    checks.append('        assert!(v.%s(%s).map(|s| s.as_bytes()) == %s);' % (getter, rs_str(k), exp))
                elif pyt is int:
                    checks.append('        assert!(v.%s(%s) == %s);' % (getter, rs_str(k), 'None' if e is None else 'Some(%di64)' % e))
                else:
                    checks.append('        assert!(v.%s(%s) == %s);' % (getter, rs_str(k), 'None' if e is None else ('Some(true)' if e else 'Some(false)')))
            out.append('    #[kani::proof]\n    #[kani::unwind(%d)]\n    fn prop_%s_%s() {\n        let v: En = %s;\n%s\n    }' % (ml + 3, getter, v.ident, val, '\n'.join(checks)))
            hs.append(('prop_%s_%s' % (getter, v.ident), '%s on %s' % (getter, v.ident)))
    text = '\n#[cfg(kani)]\nmod vx_proofs {\n    use super::*;\n    type En = %s%s;\n%s\n}\n' % (E, inst, '\n'.join(out))
    return text, hs

# ---------------------------------------------------------------------------------------
# C08: VariantArray + the agreement lemma (COUNT / iter come from spec_iter, VariantNames from spec_print)

def gen_array(prog, consts, lemmas):
    E = prog.name
    n = len(prog.variants)
    c = '%s_VariantArray_VARIANTS' % E
    ens = [('one_entry_per_declared_variant', '%s@.len() == %d' % (c, n))]
    for i, v in enumerate(prog.variants):
        ens.append(('value_at_%d_%s' % (i, v.ident), '%s@[%d] is %s' % (c, i, v.ident)))
    consts[(E, 'VariantArray', 'VARIANTS')] = Contract(ensures=ens, props=['C08'])
