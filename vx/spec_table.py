"""C10: contracts for the expansion of EnumTable (generic in the slot type T).

Ghost view: `slot(tbl, k)` maps an enabled key k to the field that holds its value (closed spec fn over the
struct fields, named by the oracle's snake_case rule).  index_mut carries the frame condition, so "read
returns the last write / a write to k changes no other slot" holds for every write/read history by
induction over the history.
"""
from .assemble import Contract
from . import vspec, oracle

def slot_name(v):
    return '_' + oracle.snake_with_digits(v.ident)

def gen(prog):
    E = prog.name
    Tb = E + 'Table'
    en = prog.enabled()
    dis = [v for v in prog.variants if v.disabled]
    pre = []
    # slot view
    chain = vspec.if_chain([('k is %s' % v.ident, 'self.%s' % slot_name(v)) for v in en[:-1]], 'self.%s' % slot_name(en[-1]))
    pre.append('impl<T> %s<T> {\n    pub closed spec fn slot(&self, k: %s) -> T { %s }\n}' % (Tb, E, chain))
    pre.append('pub open spec fn enabled(k: %s) -> bool { %s }' % (E, ' || '.join('k is %s' % v.ident for v in en)))
    plan = {}
    def each(fmt):
        return [(v.ident, fmt(v)) for v in en]
    plan[(Tb, None, 'new')] = Contract(
        ensures=each(lambda v: 'r.slot(%s::%s) == %s' % (E, v.ident, slot_name(v))), props=['C10'])
    plan[(Tb, None, 'filled')] = Contract(
        ensures=each(lambda v: 'cloned(value, r.slot(%s::%s))' % (E, v.ident)), props=['C10'])
    plan[(Tb, None, 'from_closure')] = Contract(
        requires=each(lambda v: 'func.requires((%s::%s,))' % (E, v.ident)),
        ensures=each(lambda v: 'func.ensures((%s::%s,), r.slot(%s::%s))' % (E, v.ident, E, v.ident)), props=['C10'])
    plan[(Tb, None, 'transform')] = Contract(
        requires=each(lambda v: 'func.requires((%s::%s, &self.slot(%s::%s)))' % (E, v.ident, E, v.ident)),
        ensures=each(lambda v: 'func.ensures((%s::%s, &self.slot(%s::%s)), r.slot(%s::%s))' % (E, v.ident, E, v.ident, E, v.ident)), props=['C10'])
    plan[(Tb, 'Index', 'index')] = Contract(
        ensures=[('only_enabled_keys_return', 'enabled(idx)'), ('reads_slot', '*r == self.slot(idx)')], props=['C10'])
    frame = ' && '.join('(!(idx is %s) ==> final(self).slot(%s::%s) == old(self).slot(%s::%s))' % (v.ident, E, v.ident, E, v.ident) for v in en)
    plan[(Tb, 'IndexMut', 'index_mut')] = Contract(
        ensures=[('only_enabled_keys_return', 'enabled(idx)'),
                 ('points_at_slot', '*r == old(self).slot(idx) && *final(r) == final(self).slot(idx)'),
                 ('frame_other_slots_unchanged', frame)], props=['C10'])
    all_some = ' && '.join('self.slot(%s::%s) is Some' % (E, v.ident) for v in en)
    plan[(Tb, None, 'all')] = Contract(
        ensures=[('some_iff_all_some', 'r is Some <==> (%s)' % all_some)] +
                each(lambda v: 'r is Some ==> self.slot(%s::%s) == Some(r->Some_0.slot(%s::%s))' % (E, v.ident, E, v.ident)),
        props=['C10'])
    all_ok = ' && '.join('self.slot(%s::%s) is Ok' % (E, v.ident) for v in en)
    ens = [('ok_iff_all_ok', 'r is Ok <==> (%s)' % all_ok)]
    ens += each(lambda v: 'r is Ok ==> self.slot(%s::%s) == Ok::<T, E>(r->Ok_0.slot(%s::%s))' % (E, v.ident, E, v.ident))
    # first Err in declaration order
    for i, v in enumerate(en):
        prior = ' && '.join('self.slot(%s::%s) is Ok' % (E, w.ident) for w in en[:i]) or 'true'
        ens.append(('first_err_%s' % v.ident, '(%s) && self.slot(%s::%s) is Err ==> r is Err && r->Err_0 == self.slot(%s::%s)->Err_0' % (prior, E, v.ident, E, v.ident)))
    plan[(Tb, None, 'all_ok')] = Contract(ensures=ens, props=['C10'])

    k0, k1 = en[0], en[-1]
    lem = '''// @@FN vx_reach_table
fn vx_reach_table()
{
    let mut t = %(Tb)s::<u8>::filled(3u8);
    assert(t.slot(%(E)s::%(k0)s) == 3u8);
    let p = t.index_mut(%(E)s::%(k1)s);
    *p = 9u8;
    assert(t.slot(%(E)s::%(k1)s) == 9u8);
    let q = t.index(%(E)s::%(k0)s);
    assert(*q == %(exp)s);
}
// @@END vx_reach_table''' % dict(Tb=Tb, E=E, k0=k0.ident, k1=k1.ident, exp=('9u8' if k0 is k1 else '3u8'))
    return '\n'.join(pre), plan, {}, lem

# ---------------------------------------------------------------------------------------
# Kani twins on the real derive (slot type u8 / Option<u8> / Result<u8, u8>, every value symbolic; the key symbolic over the
# enabled variants).  Loop-free, full domain for this slot type: stand-ins when the generated table leaves Verus' subset,
# and additional evidence in the thorough tier.

def kani_module(prog):
    E = prog.name
    Tb = E + 'Table'
    en = prog.enabled()
    dis = [v for v in prog.variants if v.disabled]
    n = len(en)
    keys = ', '.join('%s::%s' % (E, v.ident) for v in en)
    code_arms = ' '.join('%s::%s => %du8,' % (E, v.ident, 3 * i + 1) for i, v in enumerate(prog.variants))
    newargs = ', '.join('v[%d]' % i for i in range(n))
    out = []
    hs = []
    def H(name, body, attrs=''):
        out.append('    #[kani::proof]\n%s    fn %s() {\n%s\n    }' % (attrs, name, body))
        hs.append((name, name))
    H('tbl_new_index', '''        let v: [u8; N] = kani::any();
        let t = %s::new(%s);
        let i: usize = kani::any(); kani::assume(i < N);
        assert!(t[KEYS[i]] == v[i]);''' % (Tb, newargs))
    H('tbl_index_mut_frame', '''        let v: [u8; N] = kani::any();
        let mut t = %s::new(%s);
        let i: usize = kani::any(); kani::assume(i < N);
        let j: usize = kani::any(); kani::assume(j < N);
        let w: u8 = kani::any();
        t[KEYS[i]] = w;
        assert!(t[KEYS[j]] == if i == j { w } else { v[j] });''' % (Tb, newargs))
    H('tbl_filled_closure_transform', '''        let x: u8 = kani::any();
        let f = %s::filled(x);
        let c = %s::from_closure(|k| code(k));
        let v: [u8; N] = kani::any();
        let t = %s::new(%s);
        let u = t.transform(|k, old| old.wrapping_mul(7).wrapping_add(code(k)));
        let i: usize = kani::any(); kani::assume(i < N);
        assert!(f[KEYS[i]] == x);
        assert!(c[KEYS[i]] == code(KEYS[i]));
        assert!(u[KEYS[i]] == v[i].wrapping_mul(7).wrapping_add(code(KEYS[i])));''' % (Tb, Tb, Tb, newargs))
    H('tbl_all', '''        let v: [Option<u8>; N] = kani::any();
        let t = %s::new(%s);
        let mut all_some = true; let mut i = 0; while i < N { if v[i].is_none() { all_some = false; } i += 1; }
        let r = t.all();
        assert!(r.is_some() == all_some);
        if let Some(tt) = r { let j: usize = kani::any(); kani::assume(j < N); assert!(Some(tt[KEYS[j]]) == v[j]); }''' % (Tb, newargs), '    #[kani::unwind(%d)]\n' % (n + 2))
    H('tbl_all_ok', '''        let v: [Result<u8, u8>; N] = kani::any();
        let t = %s::new(%s);
        let mut first_err: Option<u8> = None; let mut i = 0; while i < N { if first_err.is_none() { if let Err(e) = v[i] { first_err = Some(e); } } i += 1; }
        let r = t.all_ok();
        match (r, first_err) {
            (Err(e), Some(f)) => assert!(e == f),
            (Ok(tt), None) => { let j: usize = kani::any(); kani::assume(j < N); assert!(Ok(tt[KEYS[j]]) == v[j]); }
            _ => assert!(false),
        }''' % (Tb, newargs), '    #[kani::unwind(%d)]\n' % (n + 2))
    for v in dis:
        H('tbl_disabled_%s_panics' % v.ident, '        let t = %s::filled(0u8);\n        let _ = t[%s::%s];' % (Tb, E, v.ident), '    #[kani::should_panic]\n')
    text = '''
#[cfg(kani)]
mod vx_proofs {
    use super::*;
    const N: usize = %d;
    const KEYS: [%s; N] = [%s];
    fn code(k: %s) -> u8 { match k { %s } }
%s
}
''' % (n, E, keys, E, code_arms, '\n'.join(out))
    return text, hs
