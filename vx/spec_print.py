"""Contracts for the string-producing derives: Display, AsRefStr, IntoStaticStr (From<E>, From<&E>, into_str),
VariantNames.  Properties C03 (one canonical name), C17 (fixed names are formatted like a &str), C11 (default /
transparent forward to the inner value on the caller's formatter), and the VariantNames part of C08.

NAME(V) comes from the oracle (to_string, else longest serialize, else converted identifier; prefix prepended).
Display: for a fixed-name variant the effect on the ghost formatter must be exactly that of `<str as Display>::fmt(NAME, f)`
(`str_fmt_post`), for every formatter state at once.  Forwarding variants must produce exactly the inner value's own
effect relation on (old f, final f, r).  Disabled variants may not return normally (R5: panic = `ensures false`).
"""
from .assemble import Contract
from . import vspec, oracle
from .model import rs_str

def forwards_display(v):
    return v.transparent or (v.default and v.to_string is None)

def inner_kind(prog, v):
    ty = v.fields[0].ty
    if ty == 'Cap':
        return 'cap'
    if ty in ("&'static str",):
        return 'str'
    if prog.inner is not None and ty == prog.inner.name:
        return 'enum'
    return 'other'

def bind1(prog, v, expr, var='vx_x'):
    """pattern binding the single field of v"""
    if v.kind == 'tuple':
        return '%s matches %s::%s(%s)' % (expr, prog.name, v.ident, var)
    return '%s matches %s::%s { %s: %s }' % (expr, prog.name, v.ident, v.fields[0].name, var)

def display_clauses(prog, selfx, fo, ff, r, labels=True):
    cl = []
    req = []
    for v in prog.variants:
        if v.disabled:
            cl.append(('disabled_%s_does_not_return' % v.ident, '!(%s is %s)' % (selfx, v.ident)))
            continue
        if forwards_display(v):
            k = inner_kind(prog, v)
            if k == 'cap':
                cl.append(('forward_%s' % v.ident, '(%s ==> cap_fmt_post(vx_x, %s, %s, %s))' % (bind1(prog, v, selfx), fo, ff, r)))
            elif k == 'str':
                cl.append(('forward_%s' % v.ident, '(%s ==> str_fmt_post(vx_x@, %s, %s, %s))' % (bind1(prog, v, selfx), fo, ff, r)))
                req.append(('fmt_req_%s' % v.ident, '(%s ==> DisplaySpec::fmt_req(vx_x, %s))' % (bind1(prog, v, selfx), fo)))
            elif k == 'enum':
                cl.append(('forward_%s' % v.ident, '(%s ==> %s_fmt_post(vx_x, %s, %s, %s))' % (bind1(prog, v, selfx), prog.inner.name, fo, ff, r)))
                req.append(('fmt_req_%s' % v.ident, '(%s ==> %s_fmt_req(vx_x, %s))' % (bind1(prog, v, selfx), prog.inner.name, fo)))
            continue
        names = oracle.canonical_names(prog, v)
        if any(oracle.has_placeholder(n) for n in names) and v.kind != 'unit':
            continue
        cl.append(('name_%s' % v.ident, '(%s is %s ==> (%s))' % (selfx, v.ident, ' || '.join('str_fmt_post(%s@, %s, %s, %s)' % (rs_str(n), fo, ff, r) for n in names))))
        req.append(('fmt_req_%s' % v.ident, '(%s is %s ==> %s)' % (selfx, v.ident, ' && '.join('DisplaySpec::fmt_req(%s, %s)' % (rs_str(n), fo) for n in names))))
    return req, cl

def name_clauses(prog, selfx, r, derive):
    """as_ref / From / into_str"""
    cl = []
    for v in prog.variants:
        if v.disabled:
            cl.append(('disabled_%s_does_not_return' % v.ident, '!(%s is %s)' % (selfx, v.ident)))
            continue
        if v.transparent:
            k = inner_kind(prog, v)
            if derive == 'as_ref' and k == 'cap':
                cl.append(('forward_%s' % v.ident, '(%s ==> %s@ == cap_str(vx_x))' % (bind1(prog, v, selfx), r)))
            elif k == 'enum':
                cl.append(('forward_%s' % v.ident, '(%s ==> %s == %s_name(vx_x))' % (bind1(prog, v, selfx), r, prog.inner.name)))
            continue
        names = oracle.canonical_names(prog, v)
        cl.append(('name_%s' % v.ident, '(%s is %s ==> (%s))' % (selfx, v.ident, ' || '.join('%s == %s' % (r, rs_str(n)) for n in names))))
    return cl

def in_scope(prog):
    return [v for v in prog.variants if not v.disabled and not v.transparent and not v.default]

def gen_one(prog, pid, plan, consts, pre, lem, is_inner=False):
    E = prog.name
    g_decl, g_use, where = prog.generics_decl, prog.generics_use, prog.where_clause
    tp = vspec.ty_use(prog)
    props = ['C03', 'C17', 'C11']
    d = prog.derives
    has_tr_enum = any(v.transparent and inner_kind(prog, v) == 'enum' for v in prog.variants if not v.disabled)
    inner = prog.inner.name if prog.inner else None
    if 'Display' in d:
        req, cl = display_clauses(prog, '(*self)', 'old(f)', 'final(f)', 'r')
        subst = []
        if any(forwards_display(v) and inner_kind(prog, v) == 'enum' for v in prog.variants if not v.disabled):
            subst = None  # computed below per arm
        c = Contract(requires=req, ensures=cl, props=props)
        # R1 re-pointing: a forwarding arm calls `Display::fmt(field, f)` on a nested *generated* enum, whose fmt is an inherent fn here
        for v in prog.variants:
            if not v.disabled and forwards_display(v) and inner_kind(prog, v) == 'enum':
                fld = 'field0' if v.kind == 'tuple' else v.fields[0].name
                c.body_subst.append((['::', 'core', '::', 'fmt', '::', 'Display', '::', 'fmt', [fld, ',', 'f']], '%s :: fmt ( %s , f )' % (inner, fld)))
        plan[(E, 'Display', 'fmt')] = c
        # relation + precondition as spec fns, for enums that nest this one
        req2, cl2 = display_clauses(prog, 'x', 'fo', 'ff', 'r')
        pre.append('pub open spec fn %s_fmt_post%s(x: %s, fo: &core::fmt::Formatter, ff: &core::fmt::Formatter, r: core::result::Result<(), core::fmt::Error>) -> bool %s {\n    %s\n}' % (
            E, g_decl, tp, where, ' && '.join(t for _, t in cl2) or 'true'))
        pre.append('pub open spec fn %s_fmt_req%s(x: %s, fo: &core::fmt::Formatter) -> bool %s {\n    %s\n}' % (
            E, g_decl, tp, where, ' && '.join(t for _, t in req2) or 'true'))
    if any(x in d for x in ('AsRefStr', 'IntoStaticStr')):
        # NAME as a spec function of the value (used by nesting enums)
        cases = []
        for v in prog.variants:
            if not v.disabled and not v.transparent:
                cases.append(('x is %s' % v.ident, rs_str(oracle.canonical_names(prog, v)[0])))
        pre.append('pub open spec fn %s_name%s(x: %s) -> &\'static str %s {\n    %s\n}' % (E, g_decl, tp, where, vspec.if_chain(cases, '""')))
    if 'AsRefStr' in d:
        c = Contract(ensures=name_clauses(prog, '(*self)', 'r', 'as_ref'), props=props)
        for v in prog.variants:
            if not v.disabled and v.transparent and inner_kind(prog, v) == 'enum':
                fld = 'field0' if v.kind == 'tuple' else v.fields[0].name
                c.body_subst.append((['::', 'core', '::', 'convert', '::', 'AsRef', '::', '<', 'str', '>', '::', 'as_ref', [fld]], '%s :: as_ref ( %s )' % (inner, fld)))
        plan[(E, 'AsRef', 'as_ref')] = c
    if 'IntoStaticStr' in d:
        byval = Contract(ensures=name_clauses(prog, 'x', 'r', 'from'), props=props, free=True, rename='%s_into_static' % E)
        byref = Contract(ensures=name_clauses(prog, '(*x)', 'r', 'from'), props=props, free=True, rename='%s_into_static_ref' % E)
        for v in prog.variants:
            if not v.disabled and v.transparent and inner_kind(prog, v) == 'enum':
                fld = 'field0' if v.kind == 'tuple' else v.fields[0].name
                pat = ['::', 'core', '::', 'convert', '::', 'From', '::', 'from', [fld]]
                byval.body_subst.append((pat, '%s_into_static_ref ( %s )' % (inner, fld)))
                if not prog.const_into_str:
                    byref.body_subst.append((pat, '%s_into_static_ref ( %s )' % (inner, fld)))
        if prog.const_into_str:
            plan[(E, None, 'into_str')] = Contract(ensures=name_clauses(prog, '(*self)', 'r', 'from'), props=props)
            for v in prog.variants:
                if not v.disabled and v.transparent and inner_kind(prog, v) == 'enum':
                    fld = 'field0' if v.kind == 'tuple' else v.fields[0].name
                    plan[(E, None, 'into_str')].body_subst.append((['::', 'core', '::', 'convert', '::', 'From', '::', 'from', [fld]], '%s_into_static_ref ( %s )' % (inner, fld)))
        plan[('str', 'From<%s>' % E, 'from')] = byval
        plan[('str', 'From<&%s>' % E, 'from')] = byref
    if 'VariantNames' in d:
        n = len(prog.variants)
        ens = [('one_entry_per_declared_variant', '%s_VariantNames_VARIANTS@.len() == %d' % (E, n))]
        for i, v in enumerate(prog.variants):
            if v in in_scope(prog) or True:
                names = oracle.canonical_names(prog, v)
                ens.append(('name_at_%d_%s' % (i, v.ident), '(%s)' % ' || '.join('%s_VariantNames_VARIANTS@[%d] == %s' % (E, i, rs_str(n)) for n in names)))
        consts[(E, 'VariantNames', 'VARIANTS')] = Contract(ensures=ens, props=['C03', 'C08', 'C07'])

def gen(prog, pid):
    plan, consts, pre, lem = {}, {}, [], []
    if prog.inner is not None:
        gen_one(prog.inner, pid, plan, consts, pre, lem, is_inner=True)
    gen_one(prog, pid, plan, consts, pre, lem)
    # reachability: the printers are callable on the first in-scope variant and give its NAME
    sc = [v for v in in_scope(prog) if v.kind == 'unit' and not prog.generics_use and len(oracle.canonical_names(prog, v)) == 1]
    if sc:
        v = sc[0]
        name = rs_str(oracle.canonical_name(prog, v))
        calls = []
        if 'AsRefStr' in prog.derives:
            calls.append('    let a = x.as_ref();\n    assert(a == %s);' % name)
        if 'IntoStaticStr' in prog.derives:
            calls.append('    let b = %s_into_static_ref(&x);\n    assert(b == %s);' % (prog.name, name))
            if prog.const_into_str:
                calls.append('    let c = x.into_str();\n    assert(c == %s);' % name)
        if calls:
            lem.append('// @@FN vx_reach_print\nfn vx_reach_print()\n{\n    let x = %s::%s;\n%s\n}\n// @@END vx_reach_print' % (prog.name, v.ident, '\n'.join(calls)))
        if 'Display' in prog.derives:
            lem.append('// @@FN vx_reach_display\nfn vx_reach_display(f: &mut core::fmt::Formatter<\'_>)\n    requires DisplaySpec::fmt_req(%s, old(f)),\n{\n    let x = %s::%s;\n    let ghost f0 = *f;\n    let r = x.fmt(f);\n    assert(str_fmt_post(%s@, &f0, f, r));\n}\n// @@END vx_reach_display' % (name, prog.name, v.ident, name))
    return '\n'.join(pre), plan, consts, '\n'.join(lem)

# ---------------------------------------------------------------------------------------
# Kani on the real derives: one harness per (variant, printer), payload symbolic.
#   name_*  : printer output == NAME(V)                         (C03; decider for the deprecated ToString / AsStaticStr derives)
#   rt_*    : E::from_str(print(v)) == Ok(V with defaulted payload)   (C02 - decided on the real print and parse code back to back)

ANY = {'u8': 'kani::any::<u8>()', 'i32': 'kani::any::<i32>()', 'bool': 'kani::any::<bool>()', 'usize': 'kani::any::<usize>()',
       'u16': 'kani::any::<u16>()', 'i64': 'kani::any::<i64>()', '()': '()', 'Tag': 'Tag(kani::any::<u8>())', 'T': 'kani::any::<u8>()',
       "&'a str": '"payload"', "&'static str": '"payload"'}

def any_value(prog, v):
    path = '%s::%s' % (prog.name, v.ident)
    if v.kind == 'unit':
        return path
    vals = [ANY.get(f.ty) for f in v.fields]
    if any(x is None for x in vals):
        return None
    if v.kind == 'tuple':
        return '%s(%s)' % (path, ', '.join(vals))
    return '%s { %s }' % (path, ', '.join('%s: %s' % (f.name, x) for f, x in zip(v.fields, vals)))

def printers_of(prog):
    d = prog.derives
    out = []
    if 'Display' in d:
        out.append(('display', 'v.to_string()', 'String'))
    if 'ToString' in d:
        out.append(('to_string', 'v.to_string()', 'String'))
    if 'AsRefStr' in d:
        out.append(('as_ref', 'v.as_ref().to_owned()', 'String'))
    if 'AsStaticStr' in d:
        out.append(('as_static', '{ use strum::AsStaticRef; let t: &\'static str = v.as_static(); t.to_owned() }', 'String'))
    if 'IntoStaticStr' in d:
        out.append(('into_ref', '{ let t: &\'static str = (&v).into(); t.to_owned() }', 'String'))
        out.append(('into', '{ let t: &\'static str = v.into(); t.to_owned() }', 'String'))
        if prog.const_into_str:
            out.append(('into_str', 'v.into_str().to_owned()', 'String'))
    return out

def kani_scope(prog):
    return [v for v in prog.variants if not v.disabled and not v.transparent and not v.default
            and not oracle.has_placeholder(oracle.canonical_name(prog, v)) and any_value(prog, v) is not None]

def kani_harness_list(prog, want_names=True, want_rt=False):
    hs = []
    for v in kani_scope(prog):
        for pn, _, _ in printers_of(prog):
            if want_names:
                hs.append(('name_%s_%s' % (pn, v.ident), 'name:%s' % pn))
            if want_rt and 'EnumString' in prog.derives and prog.prefix is None:
                hs.append(('rt_%s_%s' % (pn, v.ident), 'roundtrip:%s' % pn))
    if want_rt and 'EnumMessage' in prog.derives and 'EnumString' in prog.derives:
        for v in prog.variants:
            if any_value(prog, v) is not None and not v.default and not v.disabled:
                hs.append(('rt_ser_%s' % v.ident, 'roundtrip:get_serializations'))
    return hs

def grid_variants(prog):
    """Variants that get a concrete format-spec twin (expensive: format!'s Arguments machinery under CBMC): fixed-name Display variants,
    at most two per program - a multi-byte name first, then one per further variant kind."""
    if 'Display' not in prog.derives:
        return []
    sc = [v for v in kani_scope(prog) if len(oracle.canonical_names(prog, v)) == 1]
    sc.sort(key=lambda v: (not any(ord(c) > 127 for c in oracle.canonical_names(prog, v)[0]), v.kind != 'unit'))
    return sc[:2]

def kani_module(prog, want_names=True, want_rt=False, want_grid=False):
    from . import spec_parse
    E = prog.name
    inst = vspec.rust_inst(prog)
    out = []
    maxlen = 1
    for v in kani_scope(prog):
        name = oracle.canonical_name(prog, v)
        maxlen = max(maxlen, len(name.encode('utf-8')))
        val = any_value(prog, v)
        for pn, expr, _ in printers_of(prog):
            if want_names:
                out.append('''    #[kani::proof]
    #[kani::unwind(%d)]
    fn name_%s_%s() {
        let v: En = %s;
        let s: String = %s;
        assert!(%s);
    }''' % (len(name.encode('utf-8')) + 3, pn, v.ident, val, expr, ' || '.join('s.as_bytes() == %s.as_bytes()' % rs_str(n) for n in oracle.canonical_names(prog, v))))
            if want_rt and 'EnumString' in prog.derives and prog.prefix is None:
                out.append('''    #[kani::proof]
    #[kani::unwind(%d)]
    fn rt_%s_%s() {
        let v: En = %s;
        let s: String = %s;
        let r = En::from_str(&s);
        assert!(r == Ok(%s));
    }''' % (len(name.encode('utf-8')) + 3, pn, v.ident, val, expr, spec_parse.rust_value(prog, v)))
    if want_grid:
        for v in grid_variants(prog):
            name = oracle.canonical_names(prog, v)[0]
            nb = len(name.encode('utf-8'))
            nc = len(name)
            specs = ['{:%d}' % nb, '{:.2}', '{:*^%d.3}' % (nb + 4), '{:>%d}' % (nb + 2), '{:^%d}' % (nc + 3), '{:%d.1}' % max(nc - 1, 1), '{:-<%d.%d}' % (nc + 1, max(nc - 1, 1))]
            for part, sub in (('a', specs[:4]), ('b', specs[4:])):
                checks = '\n'.join('        assert!(format!("%s", v).as_bytes() == format!("%s", %s).as_bytes());' % (sp, sp, rs_str(name)) for sp in sub)
                out.append('''    // bounded sample of format specs on the real Formatter (part %s)
    #[kani::proof]
    #[kani::unwind(%d)]
    fn grid_%s_%s() {
        let v: En = %s;
%s
    }''' % (part, nb + 8, v.ident, part, any_value(prog, v), checks))
    if want_rt and 'EnumMessage' in prog.derives and 'EnumString' in prog.derives:
        for v in prog.variants:
            val = any_value(prog, v)
            if val is None or v.default:
                continue
            sp = oracle.spellings(prog, v)
            ml = max(len(x.encode('utf-8')) for x in sp)
            # a disabled variant still lists its spellings, but they must not parse (C01); the property speaks of enabled ones
            if v.disabled:
                continue
            out.append('''    #[kani::proof]
    #[kani::unwind(%d)]
    fn rt_ser_%s() {
        let v: En = %s;
        let ss = v.get_serializations();
        let mut i = 0;
        while i < ss.len() {
            assert!(En::from_str(ss[i]) == Ok(%s));
            i += 1;
        }
        assert!(ss.len() == %d);
    }''' % (max(ml, len(sp)) + 3, v.ident, val, spec_parse.rust_value(prog, v), len(sp)))
    return '''
#[cfg(kani)]
mod vx_proofs {
    use super::*;
    type En = %s%s;
%s
}
''' % (E, inst, '\n'.join(out))
