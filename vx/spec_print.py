"""Contracts for the string-producing derives: Display, AsRefStr, IntoStaticStr (From<E>, From<&E>, into_str),
VariantNames.  Properties C03 (one canonical name), C17 (fixed names are formatted like a &str), C11 (default /
transparent forward to the inner value on the caller's formatter), and the VariantNames part of C08.

NAME(V) comes from the oracle (to_string, else longest serialize, else converted identifier; prefix prepended).
Display: for a fixed-name variant the effect on the ghost formatter must be exactly that of `<str as Display>::fmt(NAME, f)`
(`str_fmt_post`), for every formatter state at once.  Forwarding variants must produce exactly the inner value's own
effect relation on (old f, final f, r).  Disabled variants may not return normally (R5: panic = `ensures false`).
"""
from .assemble import Contract
from . import vspec, oracle
from .model import rs_str

def forwards_display(v):
    return v.transparent or (v.default and v.to_string is None)

def inner_kind(prog, v):
    ty = v.fields[0].ty
    if ty == 'Cap':
        return 'cap'
    if ty in ("&'static str",):
        return 'str'
    if prog.inner is not None and ty == prog.inner.name:
        return 'enum'
    return 'other'

def bind1(prog, v, expr, var='vx_x'):
    """pattern binding the single field of v"""
    if v.kind == 'tuple':
        return '%s matches %s::%s(%s)' % (expr, prog.name, v.ident, var)
    return '%s matches %s::%s { %s: %s }' % (expr, prog.name, v.ident, v.fields[0].name, var)

def display_clauses(prog, selfx, fo, ff, r, labels=True):
    cl = []
    req = []
    for v in prog.variants:
        if v.disabled:
            cl.append(('disabled_%s_does_not_return' % v.ident, '!(%s is %s)' % (selfx, v.ident)))
            continue
        if forwards_display(v):
            k = inner_kind(prog, v)
            if k == 'cap':
                cl.append(('forward_%s' % v.ident, '(%s ==> cap_fmt_post(vx_x, %s, %s, %s))' % (bind1(prog, v, selfx), fo, ff, r)))
            elif k == 'str':
                cl.append(('forward_%s' % v.ident, '(%s ==> str_fmt_post(vx_x@, %s, %s, %s))' % (bind1(prog, v, selfx), fo, ff, r)))
                req.append(('fmt_req_%s' % v.ident, '(%s ==> DisplaySpec::fmt_req(vx_x, %s))' % (bind1(prog, v, selfx), fo)))
            elif k == 'enum':
                cl.append(('forward_%s' % v.ident, '(%s ==> %s_fmt_post(vx_x, %s, %s, %s))' % (bind1(prog, v, selfx), prog.inner.name, fo, ff, r)))
                req.append(('fmt_req_%s' % v.ident, '(%s ==> %s_fmt_req(vx_x, %s))' % (bind1(prog, v, selfx), prog.inner.name, fo)))
            continue
        name = oracle.canonical_name(prog, v)
        if oracle.has_placeholder(name) and v.kind != 'unit':
            continue
        cl.append(('name_%s' % v.ident, '(%s is %s ==> str_fmt_post(%s@, %s, %s, %s))' % (selfx, v.ident, rs_str(name), fo, ff, r)))
        req.append(('fmt_req_%s' % v.ident, '(%s is %s ==> DisplaySpec::fmt_req(%s, %s))' % (selfx, v.ident, rs_str(name), fo)))
    return req, cl

def name_clauses(prog, selfx, r, derive):
    """as_ref / From / into_str"""
    cl = []
    for v in prog.variants:
        if v.disabled:
            cl.append(('disabled_%s_does_not_return' % v.ident, '!(%s is %s)' % (selfx, v.ident)))
            continue
        if v.transparent:
            k = inner_kind(prog, v)
            if derive == 'as_ref' and k == 'cap':
                cl.append(('forward_%s' % v.ident, '(%s ==> %s@ == cap_str(vx_x))' % (bind1(prog, v, selfx), r)))
            elif k == 'enum':
                cl.append(('forward_%s' % v.ident, '(%s ==> %s == %s_name(vx_x))' % (bind1(prog, v, selfx), r, prog.inner.name)))
            continue
        name = oracle.canonical_name(prog, v)
        cl.append(('name_%s' % v.ident, '(%s is %s ==> %s == %s)' % (selfx, v.ident, r, rs_str(name))))
    return cl

def in_scope(prog):
    return [v for v in prog.variants if not v.disabled and not v.transparent and not v.default]

def gen_one(prog, pid, plan, consts, pre, lem, is_inner=False):
    E = prog.name
    g_decl, g_use, where = prog.generics_decl, prog.generics_use, prog.where_clause
    tp = vspec.ty_use(prog)
    props = ['C03', 'C17', 'C11']
    d = prog.derives
    has_tr_enum = any(v.transparent and inner_kind(prog, v) == 'enum' for v in prog.variants if not v.disabled)
    inner = prog.inner.name if prog.inner else None
    if 'Display' in d:
        req, cl = display_clauses(prog, '(*self)', 'old(f)', 'final(f)', 'r')
        subst = []
        if any(forwards_display(v) and inner_kind(prog, v) == 'enum' for v in prog.variants if not v.disabled):
            subst = None  # computed below per arm
        c = Contract(requires=req, ensures=cl, props=props)
        # R1 re-pointing: a forwarding arm calls `Display::fmt(field, f)` on a nested *generated* enum, whose fmt is an inherent fn here
        for v in prog.variants:
            if not v.disabled and forwards_display(v) and inner_kind(prog, v) == 'enum':
                fld = 'field0' if v.kind == 'tuple' else v.fields[0].name
                c.body_subst.append((['::', 'core', '::', 'fmt', '::', 'Display', '::', 'fmt', [fld, ',', 'f']], '%s :: fmt ( %s , f )' % (inner, fld)))
        plan[(E, 'Display', 'fmt')] = c
        # relation + precondition as spec fns, for enums that nest this one
        req2, cl2 = display_clauses(prog, 'x', 'fo', 'ff', 'r')
        pre.append('pub open spec fn %s_fmt_post%s(x: %s, fo: &core::fmt::Formatter, ff: &core::fmt::Formatter, r: core::result::Result<(), core::fmt::Error>) -> bool %s {\n    %s\n}' % (
            E, g_decl, tp, where, ' && '.join(t for _, t in cl2) or 'true'))
        pre.append('pub open spec fn %s_fmt_req%s(x: %s, fo: &core::fmt::Formatter) -> bool %s {\n    %s\n}' % (
            E, g_decl, tp, where, ' && '.join(t for _, t in req2) or 'true'))
    if any(x in d for x in ('AsRefStr', 'IntoStaticStr')):
        # NAME as a spec function of the value (used by nesting enums)
        cases = []
        for v in prog.variants:
            if not v.disabled and not v.transparent:
                cases.append(('x is %s' % v.ident, rs_str(oracle.canonical_name(prog, v))))
        pre.append('pub open spec fn %s_name%s(x: %s) -> &\'static str %s {\n    %s\n}' % (E, g_decl, tp, where, vspec.if_chain(cases, '""')))
    if 'AsRefStr' in d:
        c = Contract(ensures=name_clauses(prog, '(*self)', 'r', 'as_ref'), props=props)
        for v in prog.variants:
            if not v.disabled and v.transparent and inner_kind(prog, v) == 'enum':
                fld = 'field0' if v.kind == 'tuple' else v.fields[0].name
                c.body_subst.append((['::', 'core', '::', 'convert', '::', 'AsRef', '::', '<', 'str', '>', '::', 'as_ref', [fld]], '%s :: as_ref ( %s )' % (inner, fld)))
        plan[(E, 'AsRef', 'as_ref')] = c
    if 'IntoStaticStr' in d:
        byval = Contract(ensures=name_clauses(prog, 'x', 'r', 'from'), props=props, free=True, rename='%s_into_static' % E)
        byref = Contract(ensures=name_clauses(prog, '(*x)', 'r', 'from'), props=props, free=True, rename='%s_into_static_ref' % E)
        for v in prog.variants:
            if not v.disabled and v.transparent and inner_kind(prog, v) == 'enum':
                fld = 'field0' if v.kind == 'tuple' else v.fields[0].name
                pat = ['::', 'core', '::', 'convert', '::', 'From', '::', 'from', [fld]]
                byval.body_subst.append((pat, '%s_into_static_ref ( %s )' % (inner, fld)))
                if not prog.const_into_str:
                    byref.body_subst.append((pat, '%s_into_static_ref ( %s )' % (inner, fld)))
        if prog.const_into_str:
            plan[(E, None, 'into_str')] = Contract(ensures=name_clauses(prog, '(*self)', 'r', 'from'), props=props)
            for v in prog.variants:
                if not v.disabled and v.transparent and inner_kind(prog, v) == 'enum':
                    fld = 'field0' if v.kind == 'tuple' else v.fields[0].name
                    plan[(E, None, 'into_str')].body_subst.append((['::', 'core', '::', 'convert', '::', 'From', '::', 'from', [fld]], '%s_into_static_ref ( %s )' % (inner, fld)))
        plan[('str', 'From<%s>' % E, 'from')] = byval
        plan[('str', 'From<&%s>' % E, 'from')] = byref
    if 'VariantNames' in d:
        n = len(prog.variants)
        ens = [('one_entry_per_declared_variant', '%s_VariantNames_VARIANTS@.len() == %d' % (E, n))]
        for i, v in enumerate(prog.variants):
            if v in in_scope(prog) or True:
                name = oracle.canonical_name(prog, v)
                ens.append(('name_at_%d_%s' % (i, v.ident), '%s_VariantNames_VARIANTS@[%d] == %s' % (E, i, rs_str(name))))
        consts[(E, 'VariantNames', 'VARIANTS')] = Contract(ensures=ens, props=['C03', 'C08', 'C07'])

def gen(prog, pid):
    plan, consts, pre, lem = {}, {}, [], []
    if prog.inner is not None:
        gen_one(prog.inner, pid, plan, consts, pre, lem, is_inner=True)
    gen_one(prog, pid, plan, consts, pre, lem)
    # reachability: the printers are callable on the first in-scope variant and give its NAME
    sc = [v for v in in_scope(prog) if v.kind == 'unit' and not prog.generics_use]
    if sc:
        v = sc[0]
        name = rs_str(oracle.canonical_name(prog, v))
        calls = []
        if 'AsRefStr' in prog.derives:
            calls.append('    let a = x.as_ref();\n    assert(a == %s);' % name)
        if 'IntoStaticStr' in prog.derives:
            calls.append('    let b = %s_into_static_ref(&x);\n    assert(b == %s);' % (prog.name, name))
            if prog.const_into_str:
                calls.append('    let c = x.into_str();\n    assert(c == %s);' % name)
        if calls:
            lem.append('// @@FN vx_reach_print\nfn vx_reach_print()\n{\n    let x = %s::%s;\n%s\n}\n// @@END vx_reach_print' % (prog.name, v.ident, '\n'.join(calls)))
        if 'Display' in prog.derives:
            lem.append('// @@FN vx_reach_display\nfn vx_reach_display(f: &mut core::fmt::Formatter<\'_>)\n    requires DisplaySpec::fmt_req(%s, old(f)),\n{\n    let x = %s::%s;\n    let ghost f0 = *f;\n    let r = x.fmt(f);\n    assert(str_fmt_post(%s@, &f0, f, r));\n}\n// @@END vx_reach_display' % (name, prog.name, v.ident, name))
    return '\n'.join(pre), plan, consts, '\n'.join(lem)
