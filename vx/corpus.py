"""Program families (the `programs` quantifier).  Deterministic enumerated cores + a seeded random tail."""
import itertools, random
from .model import Program, Variant, Field

IDENTS = ['Red', 'Blue', 'Green', 'Yellow', 'Purple', 'Orange', 'Black', 'White', 'Cyan', 'Teal', 'Pink', 'Gray']
GONE = ['GoneA', 'GoneB', 'GoneC']
TYPES = ['u8', 'i32', 'bool', 'usize', 'Tag', '()']

class Namer:
    def __init__(self, start=1):
        self.k = start
    def next(self, stem):
        n = 'P%03d%s' % (self.k, stem)
        self.k += 1
        return n

def mk_variant(ident, kind, k, generic=None):
    """k selects payload types deterministically."""
    if kind == 'unit':
        return Variant(ident, 'unit')
    if kind == 'tuple':
        n = 1 + k % 3
        tys = [TYPES[(k + j) % len(TYPES)] for j in range(n)]
        if generic and k % 2 == 0:
            tys[-1] = generic
        return Variant(ident, 'tuple', [Field(t) for t in tys])
    n = 1 + k % 2
    tys = [TYPES[(k + 2 * j + 1) % len(TYPES)] for j in range(n)]
    if generic and k % 2 == 1:
        tys[0] = generic
    return Variant(ident, 'named', [Field(t, name='f%d' % j) for j, t in enumerate(tys)])

def iter_program(namer, n_enabled, disabled_at=(), kinds='unit', generic=False, const_generic=False, derives=('EnumIter', 'EnumCount'), k0=0):
    """disabled_at: positions (in the final declaration list) that hold disabled variants."""
    total = n_enabled + len(disabled_at)
    vs = []
    ei = 0
    di = 0
    kinds_cycle = {'unit': ['unit'], 'mixed': ['unit', 'tuple', 'named'], 'tuple': ['tuple'], 'named': ['named']}[kinds]
    for pos in range(total):
        if pos in disabled_at:
            v = mk_variant(GONE[di % len(GONE)] + ('' if di < len(GONE) else str(di)), kinds_cycle[(pos + 1) % len(kinds_cycle)], pos + k0, 'T' if generic else None)
            v.disabled = True
            di += 1
        else:
            v = mk_variant(IDENTS[ei % len(IDENTS)] + ('' if ei < len(IDENTS) else str(ei)), kinds_cycle[(ei + k0) % len(kinds_cycle)], ei + k0, 'T' if generic else None)
            ei += 1
        vs.append(v)
    p = Program(namer.next('It'), vs, derives=list(derives))
    uses_t = generic and any(f.ty == 'T' for v in vs for f in v.fields)
    gd, gu, tps = [], [], []
    if uses_t:
        gd.append('T: Default')
        gu.append('T')
        tps.append('T')
    if const_generic:
        gd.append('const K: usize')
        gu.append('K')
    if gd:
        p.generics_decl = '<' + ', '.join(gd) + '>'
        p.generics_use = '<' + ', '.join(gu) + '>'
        p.type_params = tps
    p.std_derives = ['Debug', 'PartialEq']
    p.tags = ['N=%d' % n_enabled, 'disabled_at=%s' % (list(disabled_at),), 'kinds=' + kinds] + (['generic'] if uses_t else []) + (['const_generic'] if const_generic else [])
    return p

def corpus_iter(tier, seed, derives=('EnumIter', 'EnumCount')):
    nm = Namer()
    out = []
    A = lambda *a, **k: out.append(iter_program(nm, *a, derives=derives, **k))
    # quick core
    A(0)
    A(0, (0, 1), kinds='mixed')
    A(1)
    A(2, (0,), kinds='mixed')
    A(3, (1,), kinds='mixed', generic=True)
    A(4, (2, 5), kinds='mixed')
    A(5, (1, 2), kinds='tuple', generic=True)
    A(8)
    A(3, (), kinds='named', const_generic=True)
    A(6, (0, 7), kinds='mixed', generic=True, const_generic=True)
    if tier == 'quick':
        return out
    # every placement of 0..2 disabled variants for N <= 4, alternating kinds
    k = 0
    for n in range(0, 5):
        for nd in range(0, 3):
            for pos in itertools.combinations(range(n + nd), nd):
                kinds = ['unit', 'mixed', 'tuple', 'named'][k % 4]
                A(n, pos, kinds=kinds, generic=(k % 3 == 0), k0=k)
                k += 1
    for n in range(5, 9):
        A(n, (), kinds='mixed', k0=n)
        A(n, (0, n + 1), kinds='mixed', generic=True, k0=n + 1)
    rnd = random.Random(seed)
    for _ in range(12):
        n = rnd.randint(0, 8)
        nd = rnd.randint(0, 3)
        pos = tuple(sorted(rnd.sample(range(n + nd), nd)))
        A(n, pos, kinds=rnd.choice(['unit', 'mixed', 'tuple', 'named']), generic=rnd.random() < 0.4,
          const_generic=rnd.random() < 0.2, k0=rnd.randint(0, 50))
    return out


# ---------------------------------------------------------------------------------------
# C06 FromRepr

REPRS = [None, 'u8', 'i8', 'u16', 'i16', 'u32', 'i32', 'u64', 'i64', 'usize', 'isize']

def disc_pattern(kind, n, signed, bits):
    """Discriminant expressions for n variants (None = implicit)."""
    if kind == 'implicit':
        return [None] * n
    if kind == 'explicit':
        return [str(3 * i + 1) for i in range(n)]
    if kind == 'negative':
        if not signed:
            return [None if i % 2 else str(10 * i + 2) for i in range(n)]
        return [str(-5 + 2 * i) if i % 2 == 0 else None for i in range(n)]
    if kind == 'expression':
        return ['10 - 2', None, '(2 * 8) + 3', None, '7 * 7', None, '90 - 57', None][:n] if n <= 8 else None
    if kind == 'gapped':
        out = []
        for i in range(n):
            out.append(str(20 * i + 5) if i % 3 == 0 else None)
        return out
    if kind == 'descending':
        top = 100
        return [str(top - 10 * i) for i in range(n)]
    if kind == 'extreme':
        mx = (1 << (bits - 1)) - 1 if signed else (1 << bits) - 1
        mn = -(1 << (bits - 1)) if signed else 0
        out = [None] * n
        out[0] = str(mn) if signed else None
        out[-1] = str(mx)
        if n > 2:
            out[1] = str(mx - 7) if not signed else '-1'
        return out
    raise KeyError(kind)

DISABLED_PLACEMENTS = ['none', 'first', 'middle', 'last', 'adjacent']

def repr_program(namer, repr_, pattern, placement, n=4, payload=False, generic=False, k0=0):
    signed = (repr_ or 'usize').startswith('i')
    bits = {'8': 8, '16': 16, '32': 32, '64': 64}.get((repr_ or 'usize')[1:], 64)
    if repr_ is None or repr_ in ('usize', 'isize'):
        bits = 31 if repr_ != 'isize' else 32   # Verus: "discriminant does not fit in 32-bits when usize is used" (tool limit)
    if placement == 'none':
        dis = []
    elif placement == 'first':
        dis = [0]
    elif placement == 'middle':
        dis = [n // 2]
    elif placement == 'last':
        dis = [n - 1]
    else:
        dis = [1, 2] if n >= 4 else [0, 1]
    discs = disc_pattern(pattern, n, signed, bits)
    vs = []
    ei = 0
    di = 0
    for i in range(n):
        kind = 'unit'
        if payload:
            kind = ['unit', 'tuple', 'named'][(i + k0) % 3]
        if i in dis:
            v = mk_variant(GONE[di], kind, i + k0, 'T' if generic else None)
            v.disabled = True
            di += 1
        else:
            v = mk_variant(IDENTS[ei], kind, i + k0, 'T' if generic else None)
            ei += 1
        v.disc = discs[i]
        vs.append(v)
    p = Program(namer.next('Rp'), vs, derives=['FromRepr'])
    p.repr = repr_
    uses_t = any(f.ty == 'T' for v in vs for f in v.fields)
    if uses_t:
        p.generics_decl, p.generics_use, p.type_params = '<T: Default>', '<T>', ['T']
    p.std_derives = ['Debug', 'PartialEq']
    p.tags = ['repr=%s' % repr_, 'disc=' + pattern, 'disabled=' + placement] + (['payload'] if payload else []) + (['generic'] if uses_t else [])
    return p

def corpus_repr(tier, seed):
    nm = Namer()
    out = []
    def A(repr_, pattern, placement, **kw):
        payload = kw.get('payload', False)
        if payload and repr_ is None and pattern != 'implicit':
            return   # rustc: explicit discriminants on enums with fields need a primitive #[repr]
        if repr_ is None and pattern == 'negative':
            pattern_ok = True  # usize const from a negative literal does not compile: pattern falls back to unsigned form
        out.append(repr_program(nm, repr_, pattern, placement, **kw))
    # quick core: every disabled placement, every discriminant pattern at least once, narrow and wide reprs
    A(None, 'implicit', 'none')
    A(None, 'implicit', 'middle', payload=True, generic=True)
    A('u8', 'explicit', 'first')
    A('u8', 'gapped', 'middle')          # implicit discriminant right after a disabled variant
    A('i8', 'negative', 'adjacent')
    A('u16', 'expression', 'last', n=6)
    A('i32', 'descending', 'middle', payload=True)
    A('u64', 'extreme', 'first')
    A('i64', 'extreme', 'adjacent', n=5)
    A('usize', 'implicit', 'adjacent', n=6)
    A('isize', 'negative', 'middle', payload=True, generic=True)
    A('i16', 'gapped', 'first', n=7)
    if tier == 'quick':
        return out
    pats = ['implicit', 'explicit', 'negative', 'expression', 'gapped', 'descending', 'extreme']
    k = 0
    for r in REPRS:
        for pat in pats:
            for pl in DISABLED_PLACEMENTS:
                if (k % 5) != DISABLED_PLACEMENTS.index(pl) and (k + 2) % 5 != DISABLED_PLACEMENTS.index(pl):
                    continue
                A(r, pat, pl, n=4 + (k % 4), payload=(k % 3 == 0), generic=(k % 6 == 0), k0=k)
            k += 1
    rnd = random.Random(seed)
    for _ in range(16):
        A(rnd.choice(REPRS), rnd.choice(pats), rnd.choice(DISABLED_PLACEMENTS), n=rnd.randint(3, 8), payload=rnd.random() < 0.4,
          generic=rnd.random() < 0.3, k0=rnd.randint(0, 40))
    return out


# ---------------------------------------------------------------------------------------
# C10 EnumTable (field-less enums, at least one enabled variant)

TABLE_IDENTS = ['Red', 'DarkBlue', 'Green2', 'HTTPStatus', 'X1Y2', 'Yellow', 'Orange9Light', 'A']

def table_program(namer, n_enabled, disabled_at=(), k0=0):
    total = n_enabled + len(disabled_at)
    vs = []
    ei = 0
    di = 0
    for pos in range(total):
        if pos in disabled_at:
            v = Variant(GONE[di % len(GONE)], 'unit')
            v.disabled = True
            di += 1
        else:
            v = Variant(TABLE_IDENTS[(ei + k0) % len(TABLE_IDENTS)], 'unit')
            ei += 1
        vs.append(v)
    p = Program(namer.next('Tb'), vs, derives=['EnumTable'])
    p.std_derives = ['Debug', 'PartialEq', 'Clone', 'Copy']
    p.tags = ['N=%d' % n_enabled, 'disabled_at=%s' % (list(disabled_at),)]
    return p

def corpus_table(tier, seed):
    nm = Namer()
    out = []
    A = lambda *a, **k: out.append(table_program(nm, *a, **k))
    A(1)
    A(2, (0,))
    A(3, (1,), k0=1)
    A(4, (4,), k0=2)
    A(5, (1, 2), k0=3)
    A(6, (), k0=0)
    if tier == 'quick':
        return out
    k = 0
    for n in range(1, 7):
        for nd in range(0, 3):
            for pos in itertools.combinations(range(n + nd), nd):
                if n > 3 and k % 3:
                    k += 1
                    continue
                A(n, pos, k0=k)
                k += 1
    rnd = random.Random(seed)
    for _ in range(8):
        n = rnd.randint(1, 8)
        nd = rnd.randint(0, 3)
        A(n, tuple(sorted(rnd.sample(range(n + nd), nd))), k0=rnd.randint(0, 7))
    return out
