"""Program families (the `programs` quantifier).  Deterministic enumerated cores + a seeded random tail."""
import itertools, random
from .model import Program, Variant, Field

IDENTS = ['Red', 'Blue', 'Green', 'Yellow', 'Purple', 'Orange', 'Black', 'White', 'Cyan', 'Teal', 'Pink', 'Gray']
GONE = ['GoneA', 'GoneB', 'GoneC']
TYPES = ['u8', 'i32', 'bool', 'usize', 'Tag', '()']

def add_noise(progs):
    """Attributes that the derive under test must ignore, placed so that `disabled` shares an attribute list with them (after them in the
    joined layout) and is spread over several attributes in the split layouts."""
    for k, p in enumerate(progs):
        if k % 2 == 0:
            continue
        for i, v in enumerate(p.variants):
            if v.disabled or (i + k) % 3 == 0:
                if not v.serialize and v.to_string is None:
                    v.serialize = ['n-%s' % v.ident.lower()]
                if v.message is None and (i + k) % 2 == 0:
                    v.message = 'noise'
        p.attr_layout = ['joined', 'split', 'split_rev', 'joined'][(k // 2) % 4]
    return progs

class Namer:
    def __init__(self, start=1):
        self.k = start
    def next(self, stem):
        n = 'P%03d%s' % (self.k, stem)
        self.k += 1
        return n

def mk_variant(ident, kind, k, generic=None):
    """k selects payload types deterministically."""
    if kind == 'unit':
        return Variant(ident, 'unit')
    if kind == 'tuple':
        n = 1 + k % 3
        tys = [TYPES[(k + j) % len(TYPES)] for j in range(n)]
        if generic and k % 2 == 0:
            tys[-1] = generic
        return Variant(ident, 'tuple', [Field(t) for t in tys])
    n = 1 + k % 2
    tys = [TYPES[(k + 2 * j + 1) % len(TYPES)] for j in range(n)]
    if generic and k % 2 == 1:
        tys[0] = generic
    return Variant(ident, 'named', [Field(t, name='f%d' % j) for j, t in enumerate(tys)])

def iter_program(namer, n_enabled, disabled_at=(), kinds='unit', generic=False, const_generic=False, derives=('EnumIter', 'EnumCount'), k0=0):
    """disabled_at: positions (in the final declaration list) that hold disabled variants."""
    total = n_enabled + len(disabled_at)
    vs = []
    ei = 0
    di = 0
    kinds_cycle = {'unit': ['unit'], 'mixed': ['unit', 'tuple', 'named'], 'tuple': ['tuple'], 'named': ['named']}[kinds]
    for pos in range(total):
        if pos in disabled_at:
            v = mk_variant(GONE[di % len(GONE)] + ('' if di < len(GONE) else str(di)), kinds_cycle[(pos + 1) % len(kinds_cycle)], pos + k0, 'T' if generic else None)
            v.disabled = True
            di += 1
        else:
            v = mk_variant(IDENTS[ei % len(IDENTS)] + ('' if ei < len(IDENTS) else str(ei)), kinds_cycle[(ei + k0) % len(kinds_cycle)], ei + k0, 'T' if generic else None)
            ei += 1
        vs.append(v)
    p = Program(namer.next('It'), vs, derives=list(derives))
    uses_t = generic and any(f.ty == 'T' for v in vs for f in v.fields)
    gd, gu, tps = [], [], []
    if uses_t:
        gd.append('T: Default')
        gu.append('T')
        tps.append('T')
    if const_generic:
        gd.append('const K: usize')
        gu.append('K')
    if gd:
        p.generics_decl = '<' + ', '.join(gd) + '>'
        p.generics_use = '<' + ', '.join(gu) + '>'
        p.type_params = tps
    p.std_derives = ['Debug', 'PartialEq']
    p.tags = ['N=%d' % n_enabled, 'disabled_at=%s' % (list(disabled_at),), 'kinds=' + kinds] + (['generic'] if uses_t else []) + (['const_generic'] if const_generic else [])
    return p

def corpus_iter(tier, seed, derives=('EnumIter', 'EnumCount')):
    nm = Namer()
    out = []
    A = lambda *a, **k: out.append(iter_program(nm, *a, derives=derives, **k))
    # quick core
    A(0)
    A(0, (0, 1), kinds='mixed')
    A(1)
    A(2, (0,), kinds='mixed')
    A(3, (1,), kinds='mixed', generic=True)
    A(4, (2, 5), kinds='mixed')
    A(5, (1, 2), kinds='tuple', generic=True)
    A(8)
    A(3, (), kinds='named', const_generic=True)
    A(6, (0, 7), kinds='mixed', generic=True, const_generic=True)
    A(3, (1, 2), kinds='mixed')
    for v in out[-1].variants:
        v.serialize = [v.ident.lower()]
    out[-1].attr_layout = 'split'
    # counts at the boundaries of narrow integer types (a cursor must also hold the one-past-the-end value)
    for n in (255, 256):
        p = Program(nm.next('It'), [Variant('V%d' % i) for i in range(n)], derives=list(derives))
        p.std_derives = ['Debug', 'PartialEq']
        p.tags = ['N=%d' % n, 'boundary']
        out.append(p)
    if tier == 'quick':
        return add_noise(out)
    # every placement of 0..2 disabled variants for N <= 4, alternating kinds
    k = 0
    for n in range(0, 5):
        for nd in range(0, 3):
            for pos in itertools.combinations(range(n + nd), nd):
                kinds = ['unit', 'mixed', 'tuple', 'named'][k % 4]
                A(n, pos, kinds=kinds, generic=(k % 3 == 0), k0=k)
                k += 1
    for n in range(5, 9):
        A(n, (), kinds='mixed', k0=n)
        A(n, (0, n + 1), kinds='mixed', generic=True, k0=n + 1)
    rnd = random.Random(seed)
    for _ in range(12):
        n = rnd.randint(0, 8)
        nd = rnd.randint(0, 3)
        pos = tuple(sorted(rnd.sample(range(n + nd), nd)))
        A(n, pos, kinds=rnd.choice(['unit', 'mixed', 'tuple', 'named']), generic=rnd.random() < 0.4,
          const_generic=rnd.random() < 0.2, k0=rnd.randint(0, 50))
    return add_noise(out)


# ---------------------------------------------------------------------------------------
# C06 FromRepr

REPRS = [None, 'u8', 'i8', 'u16', 'i16', 'u32', 'i32', 'u64', 'i64', 'usize', 'isize']

def disc_pattern(kind, n, signed, bits):
    """Discriminant expressions for n variants (None = implicit)."""
    if kind == 'implicit':
        return [None] * n
    if kind == 'explicit':
        return [str(3 * i + 1) for i in range(n)]
    if kind == 'negative':
        if not signed:
            return [None if i % 2 else str(10 * i + 2) for i in range(n)]
        return [str(-5 + 2 * i) if i % 2 == 0 else None for i in range(n)]
    if kind == 'expression':
        return ['10 - 2', None, '(2 * 8) + 3', None, '7 * 7', None, '90 - 57', None][:n] if n <= 8 else None
    if kind == 'gapped':
        out = []
        for i in range(n):
            out.append(str(20 * i + 5) if i % 3 == 0 else None)
        return out
    if kind == 'descending':
        top = 100
        return [str(top - 10 * i) for i in range(n)]
    if kind == 'hard':
        return ['1 << 2', None, '0x10 | 3', None, '100 / 3', None, '(7 & 3) << 1', None][:n]
    if kind == 'hard2':
        return ['2', None, '1 << 4', None, None, '120 % 100', None, None][:n]
    if kind == 'extreme':
        mx = (1 << (bits - 1)) - 1 if signed else (1 << bits) - 1
        mn = -(1 << (bits - 1)) if signed else 0
        out = [None] * n
        out[0] = str(mn) if signed else None
        out[-1] = str(mx)
        if n > 2:
            out[1] = str(mx - 7) if not signed else '-1'
        return out
    raise KeyError(kind)

DISABLED_PLACEMENTS = ['none', 'first', 'middle', 'last', 'adjacent']

def repr_program(namer, repr_, pattern, placement, n=4, payload=False, generic=False, k0=0):
    signed = (repr_ or 'usize').startswith('i')
    bits = {'8': 8, '16': 16, '32': 32, '64': 64}.get((repr_ or 'usize')[1:], 64)
    if repr_ is None or repr_ in ('usize', 'isize'):
        bits = 31 if repr_ != 'isize' else 32   # Verus: "discriminant does not fit in 32-bits when usize is used" (tool limit)
    if placement == 'none':
        dis = []
    elif placement == 'first':
        dis = [0]
    elif placement == 'middle':
        dis = [n // 2]
    elif placement == 'last':
        dis = [n - 1]
    else:
        dis = [1, 2] if n >= 4 else [0, 1]
    discs = disc_pattern(pattern, n, signed, bits)
    vs = []
    ei = 0
    di = 0
    for i in range(n):
        kind = 'unit'
        if payload:
            kind = ['unit', 'tuple', 'named'][(i + k0) % 3]
        if i in dis:
            v = mk_variant(GONE[di], kind, i + k0, 'T' if generic else None)
            v.disabled = True
            di += 1
        else:
            v = mk_variant(IDENTS[ei], kind, i + k0, 'T' if generic else None)
            ei += 1
        v.disc = discs[i]
        vs.append(v)
    p = Program(namer.next('Rp'), vs, derives=['FromRepr'])
    p.repr = repr_
    uses_t = any(f.ty == 'T' for v in vs for f in v.fields)
    if uses_t:
        p.generics_decl, p.generics_use, p.type_params = '<T: Default>', '<T>', ['T']
    p.std_derives = ['Debug', 'PartialEq']
    p.tags = ['repr=%s' % repr_, 'disc=' + pattern, 'disabled=' + placement] + (['payload'] if payload else []) + (['generic'] if uses_t else [])
    return p

def corpus_repr(tier, seed):
    nm = Namer()
    out = []
    def A(repr_, pattern, placement, **kw):
        payload = kw.get('payload', False)
        if payload and repr_ is None and pattern != 'implicit':
            return   # rustc: explicit discriminants on enums with fields need a primitive #[repr]
        if repr_ is None and pattern == 'negative':
            pattern_ok = True  # usize const from a negative literal does not compile: pattern falls back to unsigned form
        out.append(repr_program(nm, repr_, pattern, placement, **kw))
    # quick core: every disabled placement, every discriminant pattern at least once, narrow and wide reprs
    A(None, 'implicit', 'none')
    A(None, 'implicit', 'middle', payload=True, generic=True)
    A('u8', 'explicit', 'first')
    A('u8', 'gapped', 'middle')          # implicit discriminant right after a disabled variant
    A('i8', 'negative', 'adjacent')
    A('u16', 'expression', 'last', n=6)
    A('i32', 'descending', 'middle', payload=True)
    A('u64', 'extreme', 'first')
    A('i64', 'extreme', 'adjacent', n=5)
    A('usize', 'implicit', 'adjacent', n=6)
    A('isize', 'negative', 'middle', payload=True, generic=True)
    A('i16', 'gapped', 'first', n=7)
    # discriminant expressions with shifts / division / bit operators (outside Verus' const evaluation): decided by the Kani twin (full domain, bit-precise)
    A('u8', 'hard', 'first', n=6)
    A('i16', 'hard', 'middle', n=8)
    A('u32', 'hard2', 'adjacent', n=7)
    A('i8', 'hard2', 'none', n=4)
    A(None, 'hard', 'last', n=4)
    # variant names that collide under snake_case / case folding (distinct identifiers all the same)
    p = Program(nm.next('Rp'), [Variant('Http'), Variant('HTTP', disc='10'), Variant('FooBar'), Variant('Foo_Bar', disc='3'), Variant('V1'), Variant('V_1')], derives=['FromRepr'])
    p.repr = 'u8'
    p.std_derives = ['Debug', 'PartialEq']
    out.append(p)
    if tier == 'quick':
        return add_noise(out)
    pats = ['implicit', 'explicit', 'negative', 'expression', 'gapped', 'descending', 'extreme', 'hard', 'hard2']
    k = 0
    for r in REPRS:
        for pat in pats:
            for pl in DISABLED_PLACEMENTS:
                if (k % 5) != DISABLED_PLACEMENTS.index(pl) and (k + 2) % 5 != DISABLED_PLACEMENTS.index(pl):
                    continue
                A(r, pat, pl, n=4 + (k % 4), payload=(k % 3 == 0), generic=(k % 6 == 0), k0=k)
            k += 1
    rnd = random.Random(seed)
    for _ in range(16):
        A(rnd.choice(REPRS), rnd.choice(pats), rnd.choice(DISABLED_PLACEMENTS), n=rnd.randint(3, 8), payload=rnd.random() < 0.4,
          generic=rnd.random() < 0.3, k0=rnd.randint(0, 40))
    return add_noise(out)


# ---------------------------------------------------------------------------------------
# C10 EnumTable (field-less enums, at least one enabled variant)

TABLE_IDENTS = ['Red', 'DarkBlue', 'Green2', 'HTTPStatus', 'X1Y2', 'Yellow', 'Orange9Light', 'A']

def table_program(namer, n_enabled, disabled_at=(), k0=0):
    total = n_enabled + len(disabled_at)
    vs = []
    ei = 0
    di = 0
    for pos in range(total):
        if pos in disabled_at:
            v = Variant(GONE[di % len(GONE)], 'unit')
            v.disabled = True
            di += 1
        else:
            v = Variant(TABLE_IDENTS[(ei + k0) % len(TABLE_IDENTS)], 'unit')
            ei += 1
        vs.append(v)
    p = Program(namer.next('Tb'), vs, derives=['EnumTable'])
    p.std_derives = ['Debug', 'PartialEq', 'Clone', 'Copy']
    p.tags = ['N=%d' % n_enabled, 'disabled_at=%s' % (list(disabled_at),)]
    return p

def corpus_table(tier, seed):
    nm = Namer()
    out = []
    A = lambda *a, **k: out.append(table_program(nm, *a, **k))
    A(1)
    A(2, (0,))
    A(3, (1,), k0=1)
    A(4, (4,), k0=2)
    A(5, (1, 2), k0=3)
    A(6, (), k0=0)
    A(1, (0,), k0=5)
    A(1, (1, 2), k0=6)
    # repr / explicit discriminants on the key enum must not matter
    p = table_program(nm, 4, (1,), k0=4)
    p.repr = 'u8'
    for i, v in enumerate(p.variants):
        v.disc = str(40 - 7 * i) if i % 2 == 0 else None
    out.append(p)
    if tier == 'quick':
        return add_noise(out)
    k = 0
    for n in range(1, 7):
        for nd in range(0, 3):
            for pos in itertools.combinations(range(n + nd), nd):
                if n > 3 and k % 3:
                    k += 1
                    continue
                A(n, pos, k0=k)
                k += 1
    rnd = random.Random(seed)
    for _ in range(8):
        n = rnd.randint(1, 8)
        nd = rnd.randint(0, 3)
        A(n, tuple(sorted(rnd.sample(range(n + nd), nd))), k0=rnd.randint(0, 7))
    return add_noise(out)


# ---------------------------------------------------------------------------------------
# EnumString family: C01 / C11 / C12 / C18 (and the field-less subset for C16)

def V(ident, kind='unit', tys=None, ser=(), ts=None, aci=None, bare=False, disabled=False, default=False, dw=None, fdw=None, names=None):
    tys = list(tys or [])
    if kind == 'tuple':
        fields = [Field(t) for t in tys]
    elif kind == 'named':
        names = names or ['f%d' % i for i in range(len(tys))]
        fields = [Field(t, name=n, default_with=(fdw or {}).get(n)) for t, n in zip(tys, names)]
    else:
        fields = []
    return Variant(ident, kind, fields, serialize=list(ser), to_string=ts, aci=aci, aci_bare=bare, disabled=disabled,
                   default=default, default_with=dw)

def parse_prog(namer, variants, stem='Ps', derives=('EnumString',), generic=None, **enum_opts):
    p = Program(namer.next(stem), variants, derives=list(derives))
    p.std_derives = ['Debug', 'PartialEq']
    for k, v in enum_opts.items():
        setattr(p, k, v)
    uses_t = any(f.ty == 'T' for v in variants for f in v.fields)
    uses_lt = any("'a" in f.ty for v in variants for f in v.fields)
    gd, gu = [], []
    if uses_lt:
        gd.append("'a"); gu.append("'a")
    if uses_t:
        gd.append('T: Default'); gu.append('T'); p.type_params = ['T']
    if gd:
        p.generics_decl = '<' + ', '.join(gd) + '>'
        p.generics_use = '<' + ', '.join(gu) + '>'
    return p

STEMS = ['alpha', 'bravo', 'charlie', 'delta', 'echo', 'foxtrot', 'golf', 'hotel', 'india', 'juliet']

def corpus_parse(tier, seed, focus='C01', nm=None):
    nm = nm or Namer()
    out = []
    def A(vs, **kw):
        p = parse_prog(nm, vs, **kw)
        out.append(p)
        return p
    # 1 plain identifiers
    A([V('Red'), V('Green'), V('Blue')])
    # 2 serialize_all over multi-word identifiers
    A([V('RedFox'), V('BlueSky2'), V('HTTPServer'), V('X')], serialize_all='snake_case')
    # 3 every naming mix; explicit spellings are never re-cased
    A([V('Red', ser=['r', 'rouge']), V('Blue', ts='BLEU'), V('Green', ser=['g'], ts='verde'), V('YellowSun')], serialize_all='SCREAMING_SNAKE_CASE')
    # 4 enum-level case-insensitivity with one variant opting out; payload defaults; generic payload; default variant
    A([V('Red', ser=['r', 'rouge']), V('Gone', disabled=True), V('BlueSky', 'tuple', ['u8'], aci=False, dw='dw_u8'),
       V('Green', 'named', ['u8', 'T'], names=['a', 'b'], fdw={'a': 'dw_u8'}), V('Other', 'tuple', ['Cap'], default=True)],
      aci=True, serialize_all='snake_case')
    # 5 variant-level flags only (bare and = true); case-sensitive near-misses of each other
    A([V('Red', ser=['Red']), V('Red2', ser=['red']), V('Blue', aci=True, bare=True), V('Green', ts='GrEeN', aci=True), V('Teal', aci=False)])
    # 6 disabled first / middle / last, with explicit spellings that must not parse
    A([V('GoneA', disabled=True, ser=['gone']), V('Red'), V('GoneB', 'tuple', ['u8'], disabled=True), V('Blue', 'tuple', ['i32', 'bool']), V('GoneC', disabled=True, ts='Bye')])
    # 7 default variant in named form, after and before other variants
    A([V('Other', 'named', ['Cap'], names=['inner'], default=True), V('Red', ser=['red', 'RED']), V('Blue', aci=True)])
    # 8 default_with on tuple and named fields; Tag payload (Default = Tag(7)), lifetime + type parameter
    A([V('One', 'tuple', ['Tag']), V('Two', 'tuple', ['Tag'], dw='dw_tag'), V('Three', 'named', ['i32', 'Tag', 'T'], names=['x', 'y', 'z'], fdw={'x': 'dw_i32'}),
       V('Four', 'tuple', ["&'a str", 'usize'])], serialize_all='kebab-case')
    # 9 custom parse error with case-insensitive and case-sensitive variants
    A([V('Red', ts='RED'), V('Blue', aci=True, bare=True), V('Green', 'tuple', ['u8']), V('Gone', disabled=True)], parse_err_ty='PErr', parse_err_fn='perr')
    # 10 non-ASCII, empty, caseless, all-lower / all-upper spellings; Kelvin / long-s look-alikes are *inputs*, the spellings are ASCII
    A([V('Gruen', ser=['gr\u00fcn'], aci=True), V('Ete', ser=['\u00c9T\u00c9']), V('K', ser=['k'], aci=True), V('Empty', ser=['']), V('Num', ser=['4711', '-'], aci=True),
       V('Lower', ser=['lower'], aci=True), V('Upper', ser=['UPPER'], aci=True), V('Ss', ser=['ss', 'si'], aci=True)])
    # 11 nothing enabled: every input is rejected
    A([V('GoneA', disabled=True), V('GoneB', 'tuple', ['u8'], disabled=True)])
    # 12 only a default variant + custom error attributes (error type falls back to the std one only via default)
    A([V('Any', 'tuple', ['Cap'], default=True), V('Gone', disabled=True)], aci=True)
    # 13 a variant that is both default and disabled is disabled: there is no catch-all, it is never produced
    A([V('Red'), V('Other', 'tuple', ['Cap'], default=True, disabled=True), V('Blue', aci=True)])
    # 14 to_string only / serialize only / both, under a style: the converted identifier is NOT a spelling once an explicit one exists
    A([V('DeepPurple', ts='purp'), V('LightBlue', ser=['lb']), V('DarkGreen', ser=['dg'], ts='dgreen'), V('PlainOne')], serialize_all='snake_case')
    # 15 spellings that coincide under Unicode case mapping but not under ASCII folding (so they do not overlap); attributes split over several #[strum]
    p = A([V('K', ser=['k'], aci=True), V('Kelvin', ser=['\u212a'], aci=True), V('Ete', ser=['\u00e9t\u00e9'], aci=True), V('EteCap', ser=['\u00c9t\u00e9']),
           V('Gone', disabled=True, ser=['kitty'])])
    p.attr_layout = 'split'
    # 16 the longest spelling is non-ASCII (more bytes than chars); a fixed name with escaped braces on a named-field variant
    A([V('Tr', ser=['T\u00fcrk\u00e7e-dili']), V('Short', ser=['ab']), V('Block', 'named', ['u8'], ts='{{block}}'), V('Brace', 'tuple', ['u8'], ser=['}}x{{'])])
    # 17 a default variant together with the custom-error attributes: the catch-all wins, the error function is never called
    p = A([V('Red', aci=True), V('Other', 'tuple', ['Cap'], default=True)], parse_err_ty='PErr', parse_err_fn='perr')
    p.attr_layout = 'split_rev'
    # 18 flags on variants where they must not matter: case-insensitive default, default_with on a disabled variant, repeated spellings; where-clause generics
    A([V('Fallback', 'tuple', ['Cap'], default=True, aci=True, ser=['never-a-spelling']), V('DwGone', 'tuple', ['u8'], disabled=True, dw='dw_u8', ser=['dwgone']),
       V('Dup', ser=['dup', 'dup'], ts='dup'), V('Gen', 'named', ['T', 'u8'], names=['t', 'n'], fdw={'n': 'dw_u8'}, aci=True)], where_clause='where T: Clone')
    # 19 every variant case-insensitive through the enum-level flag, custom error: the error function must see the input unchanged
    A([V('Red'), V('DarkGreen', ser=['dg', 'Dark-Green']), V('Blue', 'tuple', ['u8'])], aci=True, parse_err_ty='PErr', parse_err_fn='perr', serialize_all='kebab-case')
    # 20 one case-insensitive variant with two spellings that differ only in the case of a non-ASCII letter (distinct under ASCII folding)
    A([V('Aerger', ser=['\u00c4rger'], ts='\u00e4rger', aci=True), V('Plain')])
    # 21 overlapping spellings: a case-sensitive all-lowercase spelling declared before / after a case-insensitive variant that folds to it
    #    (for the shared input the property does not say who wins; every other input is decided)
    p = A([V('LowerFirst', ser=['mb']), V('Mega', ser=['MB'], aci=True), V('Kilo', ser=['KB'], aci=True), V('LowerLast', ser=['kb'])])
    p.tags.append('overlap')
    # 22 spellings that are prefixes of each other followed by a space / '!' (title_case), and spellings with characters that are
    #    escaped in source text (quote, backslash, newline, tab)
    A([V('Dark'), V('DarkBlue'), V('DarkBlueSky'), V('D')], serialize_all='title_case')
    A([V('Quote', ser=['say "hi"']), V('Back', ser=['a\\b', 'a']), V('Line', ser=['two\nlines']), V('Bang', ser=['a!', 'a b']), V('Tab', ts='t\tab')])
    # 23 a case-insensitive spelling with non-ASCII upper-case letters
    A([V('Ecole', ser=['\u00c9cole'], aci=True), V('Strasse', ser=['Stra\u00dfe'], aci=True), V('Plain')])
    # 25 spellings of 63 / 64 / 66 / 130 bytes next to short ones (length-indexed tables and masks)
    A([V('ContentType', ser=['ctype'], ts='content-type'), V('Vendor', ts='x-very-long-vendor-specific-header-name-that-nobody-would-ever-use'), V('L63', ser=['a' * 63]),
       V('L64', ser=['b' * 64], aci=True), V('L130', ser=['c' * 130, 'c']), V('Accept')])
    # 26 case-sensitive spellings with a common prefix and a custom error (the error function must see the whole input, not a remainder)
    A([V('Green'), V('Grey'), V('Gold', ser=['Gold', 'Gilt'])], parse_err_ty='PErr', parse_err_fn='perr')
    # 24 eight case-sensitive spellings and a custom error
    A([V(x) for x in ('Alpha', 'Bravo', 'Charlie', 'Delta', 'Echo', 'Foxtrot', 'Golf', 'Hotel', 'India')], parse_err_ty='PErr', parse_err_fn='perr')
    if tier == 'quick':
        return out
    styles = [None, 'snake_case', 'SCREAMING_SNAKE_CASE', 'kebab-case', 'camelCase', 'PascalCase', 'lowercase', 'UPPERCASE', 'title_case', 'mixed_case', 'Train-Case', 'SCREAMING-KEBAB-CASE']
    rnd = random.Random(seed * 7919 + 17)
    idents = ['RedFox', 'BlueSky', 'Green', 'DarkGray2', 'HTTPPort', 'Yellow', 'X', 'Orange_Peel', 'teal', 'NASARocket']
    n_prog = 110
    for k in range(n_prog):
        nv = 1 + k % 6
        vs = []
        ids = idents[k % 3:] + idents[:k % 3]
        has_default = (k % 5 == 1)
        custom = (k % 4 == 2) and not has_default
        enum_aci = (k % 3 == 0)
        for i in range(nv):
            stem = STEMS[(i + k) % len(STEMS)]
            mode = (k // 2 + i) % 6      # none, ser1, ser2, ser3, to_string, both
            forms = [stem, stem.upper(), stem.title(), stem + '-x', '\u00e9' + stem, stem[:3] + '7']
            rnd.shuffle(forms)
            ser, ts = [], None
            if mode == 1: ser = forms[:1]
            elif mode == 2: ser = forms[:2]
            elif mode == 3: ser = forms[:3]
            elif mode == 4: ts = forms[0]
            elif mode == 5: ser, ts = forms[:2], forms[2]
            aci = [None, True, False, None, True, None][(k + 2 * i) % 6]
            kind = ['unit', 'tuple', 'named'][(k + i) % 3]
            tys = {'unit': [], 'tuple': [TYPES[(k + i) % 5]] , 'named': [TYPES[(k + i + 1) % 5], TYPES[(k + i + 3) % 5]]}[kind]
            v = V(ids[i], kind, tys, ser=ser, ts=ts, aci=aci, bare=bool(aci) and (k % 2 == 0), disabled=((k + i) % 7 == 3))
            if kind == 'tuple' and tys == ['u8'] and k % 2:
                v.default_with = 'dw_u8'
            vs.append(v)
        if has_default:
            pos = k % (nv + 1)
            vs.insert(pos, V('Fallback', 'tuple', ['Cap'], default=True) if k % 2 else V('Fallback', 'named', ['Cap'], names=['raw'], default=True))
        kw = dict(serialize_all=styles[k % len(styles)], aci=enum_aci)
        if custom:
            kw.update(parse_err_ty='PErr', parse_err_fn='perr')
        if has_default and k % 10 == 1:
            kw.update(parse_err_ty='PErr', parse_err_fn='perr')
        A(vs, **kw).attr_layout = ['joined', 'split', 'split_rev'][k % 3]
    out.extend(random_string_programs(seed, 150, nm, 'parse'))
    return out


# ---------------------------------------------------------------------------------------
# printers: C03 / C17 / C11(forward) / C02 / C08(VariantNames)

PRINTERS = ('Display', 'AsRefStr', 'IntoStaticStr', 'VariantNames')

def corpus_print(tier, seed, derives=PRINTERS, with_forward=True, with_prefix=True, extra_derives=(), nm=None):
    nm = nm or Namer()
    out = []
    der = tuple(derives) + tuple(extra_derives)
    def A(vs, derives=der, inner=None, **kw):
        p = parse_prog(nm, vs, stem='Pr', derives=derives, **kw)
        if inner is not None:
            p.inner = inner
        out.append(p)
        return p
    A([V('Red'), V('GreenLeaf'), V('Blue2')])
    A([V('A', ser=['b', 'blue', 'bl']), V('B', ser=['longest', 's']), V('C', ser=['a', 'bb', 'ccc']), V('D', ser=['dd', 'd'], ts='dee'), V('E', ts='E!')])
    # every order of three / four serialize literals of distinct lengths
    perms = list(itertools.permutations(['d', 'dark', 'darkest']))
    A([V('P%d' % i, ser=['%s%d' % (x, i) for x in pm]) for i, pm in enumerate(perms)] +
      [V('Q0', ser=['darkest', 'd', 'dark', 'da']), V('Q1', ser=['da', 'darkest', 'd', 'dark']), V('Q2', 'tuple', ['u8'], ser=['dark', 'da', 'd', 'darkest'])])
    # escaped braces are part of a fixed name (no placeholder), for every variant kind
    A([V('Unit', ts='unit{{}}'), V('Tup', 'tuple', ['u8'], ts='tu{{p}}'), V('Named', 'named', ['u8'], ts='block{{}}'), V('Ser', 'named', ['i32'], ser=['a{{b}}c', 'x'])])
    # an explicit empty name is still an explicit name
    A([V('NoUnit', ts=''), V('OnlyEmptySer', 'tuple', ['u8'], ser=['']), V('Plain')], serialize_all='snake_case')
    A([V('RedFox', 'tuple', ['u8']), V('BlueSky', 'named', ['i32', 'bool']), V('HTTPPort'), V('X', ser=['explicit-Stays'])], serialize_all='kebab-case',
      **({'prefix': 'p/'} if with_prefix else {}))
    if with_prefix:
        A([V('Red'), V('Blue', ts='bleu')], prefix='\u00e9-', serialize_all='UPPERCASE')
        A([V('Red'), V('Blue', ser=['b'])], prefix='')
    A([V('GoneA', disabled=True), V('Red'), V('GoneB', 'tuple', ['u8'], disabled=True, ser=['gone']), V('Blue', 'tuple', ['Tag', 'T']), V('GoneC', disabled=True)],
      const_into_str=True, serialize_all='SCREAMING_SNAKE_CASE')
    if with_forward:
        A([V('Red'), V('Other', 'tuple', ['Cap'], default=True), V('Named', ts='named!')], derives=tuple(x for x in der if x != 'IntoStaticStr'))
        A([V('Red'), V('Other', 'named', ['Cap'], names=['raw'], default=True, ts='fixed-other')], derives=('Display',) + tuple(extra_derives))
        # a default variant with serialize literals but no to_string still forwards to its inner value
        A([V('Red', ser=['r']), V('Other', 'tuple', ['Cap'], default=True, ser=['fallback', 'fb'])], derives=('Display', 'VariantNames') + tuple(extra_derives)).attr_layout = 'split'
        A([V('Wrap', 'tuple', ['Cap'], ), V('WrapN', 'named', ['Cap'], names=['inner']), V('Plain')], derives=('Display', 'AsRefStr'))
        out[-1].variants[0].transparent = True
        out[-1].variants[1].transparent = True
        # nested derived enum inside a transparent variant, every printer
        k = nm.k
        inner = Program('P%03dPrIn' % k, [V('InA'), V('InB', ts='in-b'), V('InC', 'tuple', ['u8'])], derives=['Display', 'AsRefStr', 'IntoStaticStr'])
        inner.std_derives = ['Debug', 'PartialEq']
        inner.serialize_all = 'snake_case'
        p = A([V('Tr', 'tuple', [inner.name]), V('Plain'), V('TrN', 'named', [inner.name], names=['it'])], derives=('Display', 'AsRefStr', 'IntoStaticStr'), inner=inner)
        p.variants[0].transparent = True
        p.variants[2].transparent = True
        A([V('S', 'tuple', ["&'static str"]), V('Plain')], derives=('Display',))
        out[-1].variants[0].transparent = True
        # transparent / default on a disabled variant: disabled wins; a transparent variant that also has naming attributes still forwards
        p = A([V('TrGone', 'tuple', ['Cap'], disabled=True), V('DfGone', 'named', ['Cap'], names=['raw'], default=True, disabled=True), V('Tr', 'tuple', ['Cap'], ts='ignored-name', ser=['x']), V('Plain', 'tuple', ['T'])],
              derives=('Display', 'AsRefStr'), where_clause='where T: Clone')
        p.variants[0].transparent = True
        p.variants[2].transparent = True
    if tier == 'quick':
        return out
    styles = [None, 'snake_case', 'SCREAMING_SNAKE_CASE', 'kebab-case', 'camelCase', 'PascalCase', 'lowercase', 'UPPERCASE', 'title_case', 'mixed_case', 'Train-Case', 'SCREAMING-KEBAB-CASE',
              'camel_case', 'kebab_case', 'snek_case', 'shouty_snake_case', 'shouty_snek_case']
    idents = ['RedFox', 'BlueSky', 'Green', 'DarkGray2', 'HTTPPort', 'Yellow', 'X', 'Orange_Peel', 'teal', 'NASARocket']
    rnd = random.Random(seed * 104729 + 5)
    for k in range(60):
        nv = 1 + k % 6
        ids = idents[k % 4:] + idents[:k % 4]
        vs = []
        for i in range(nv):
            stem = STEMS[(i + k) % len(STEMS)]
            forms = [stem[:2], stem, stem.upper() + '-long', stem.title() + 'X', '\u00e9' + stem + stem]
            forms = [f for j, f in enumerate(forms) if len(set(len(x.encode()) for x in forms[:j + 1])) == j + 1]
            rnd.shuffle(forms)
            mode = (k // 3 + i) % 6
            ser, ts = [], None
            if mode == 1: ser = forms[:1]
            elif mode == 2: ser = forms[:2]
            elif mode == 3: ser = forms[:3]
            elif mode == 4: ts = forms[0]
            elif mode == 5: ser, ts = forms[:2], forms[2]
            kind = ['unit', 'tuple', 'named'][(k + i) % 3]
            tys = {'unit': [], 'tuple': [TYPES[(k + i) % 5]], 'named': [TYPES[(k + i + 1) % 5], TYPES[(k + i + 3) % 5]]}[kind]
            vs.append(V(ids[i], kind, tys, ser=ser, ts=ts, disabled=((k + i) % 8 == 5)))
        kw = dict(serialize_all=styles[k % len(styles)])
        if with_prefix and k % 4 == 1:
            kw['prefix'] = ['pre.', '', '\u00fc_', 'NS::'][(k // 4) % 4]
        if k % 5 == 2:
            kw['const_into_str'] = True
        A(vs, **kw).attr_layout = ['joined', 'split', 'split_rev'][k % 3]
    out.extend(random_string_programs(seed, 120, nm, 'print'))
    return out


# ---------------------------------------------------------------------------------------
# C09 EnumDiscriminants

def corpus_disc(tier, seed):
    nm = Namer()
    out = []
    def A(vs, stem='Dc', **kw):
        p = parse_prog(nm, vs, stem=stem, derives=('EnumDiscriminants',), **kw)
        p.std_derives = ['Debug']
        out.append(p)
        return p
    A([V('Red'), V('Green'), V('Blue')])
    p = A([V('Red'), V('Blue', 'tuple', ['u8', 'i32']), V('Green', 'named', ['bool'])], repr='u8')
    p.variants[0].disc, p.variants[1].disc = '3', '7'
    p = A([V('Unit'), V('Gone', disabled=True), V('Borrowed', 'tuple', ['u8', "&'a T"]), V('Owned', 'named', ['T', 'usize'])], where_clause='where T: Clone')
    p = A([V('Neg'), V('Gone', 'tuple', ['u8'], disabled=True), V('Expr'), V('Next')], repr='i8')
    p.variants[0].disc, p.variants[2].disc = '-3', '10 - 2'
    p = A([V('Alpha'), V('Beta', 'tuple', ['Tag'])])
    p.disc_attrs = ['derive(Hash, PartialOrd)', 'name(%sKind)' % p.name, 'vis(pub)']
    p.disc_name = p.name + 'Kind'
    p = A([V('One'), V('Two', 'tuple', ['u8'])])
    p.generics_decl, p.generics_use = '<const K: usize>', '<K>'
    p = A([V('Hidden'), V('Shown', 'named', ['u8'])])
    p.disc_attrs = ['vis(pub(crate))']
    p.tags.append('restricted_vis')
    p = A([V('A'), V('B'), V('C'), V('D')], repr='u16')
    p.variants[0].disc, p.variants[2].disc = '500', '2'
    # explicit discriminants on every variant kind (tuple and struct-like), followed by implicit ones; 128-bit repr
    p = A([V('Ping'), V('Data', 'tuple', ['u8']), V('Ack', 'named', ['u16']), V('Close'), V('Tail', 'named', ['bool'])], repr='u8')
    p.variants[0].disc, p.variants[1].disc, p.variants[2].disc = '1', '16', '40'
    p = A([V('Small'), V('Huge'), V('Next', 'tuple', ['u8'])], repr='u128')
    p.variants[1].disc = '18446744073709551616'
    p = A([V('Neg'), V('Pos')], repr='i128')
    p.variants[0].disc = '-5'
    # the enum itself is not `pub`: IntoDiscriminant is still implemented unless vis(..) says otherwise
    A([V('Inner'), V('Data', 'tuple', ['u8'])]).vis = 'pub(crate)'
    A([V('Priv'), V('Two')]).vis = ''
    # attributes that are copied to the generated variants (doc, allow, cfg) or passed through must not change the mapping
    p = A([V('Doc'), V('Allowed', 'tuple', ['u8']), V('Cfg'), V('Last', 'named', ['bool'])], repr='u8')
    p.variants[0].docs = [' documented variant']
    p.variants[1].extra_attrs = ['allow(dead_code)']
    p.variants[2].extra_attrs = ['cfg(all())']
    p.variants[1].disc = '9'
    # expressions with operators Verus' const evaluation does not take: decided by the Kani twin
    p = A([V('Read'), V('Write'), V('Exec', 'tuple', ['u8']), V('All')], repr='u8')
    p.variants[0].disc, p.variants[2].disc = '1 << 2', '0x10 | 3'
    p = A([V('Low'), V('Mid'), V('High'), V('Top'), V('Gone', disabled=True), V('Last')], repr='i16')
    p.variants[0].disc, p.variants[2].disc, p.variants[4].disc = '-2', '1 << 4', '100 / 3'
    if tier == 'quick':
        return add_noise(out)
    rnd = random.Random(seed * 31 + 9)
    idents = ['Red', 'Blue', 'Green', 'Yellow', 'Teal', 'Pink', 'Gray']
    for k in range(40):
        n = 1 + k % 6
        repr_ = [None, 'u8', 'i8', 'u16', 'i32', 'u64', 'i64', 'usize', 'isize'][k % 9]
        payload = (k % 3 != 0)
        vs = []
        for i in range(n):
            kind = ['unit', 'tuple', 'named'][(k + i) % 3] if payload else 'unit'
            tys = {'unit': [], 'tuple': [TYPES[(k + i) % 5], 'T'] if k % 4 == 1 else [TYPES[(k + i) % 5]], 'named': [TYPES[(k + i + 1) % 5]]}[kind]
            vs.append(V(idents[i], kind, tys, disabled=((k + i) % 9 == 4)))
        p = A(vs, repr=repr_)
        if repr_ is not None or not payload:
            signed = (repr_ or 'isize').startswith('i')
            pat = ['implicit', 'explicit', 'negative', 'gapped', 'descending'][k % 5]
            ds = disc_pattern(pat, n, signed, 8)
            for v, d in zip(p.variants, ds):
                v.disc = d
        if k % 7 == 3:
            p.disc_attrs = ['name(%sTag)' % p.name, 'derive(Hash)']
            p.disc_name = p.name + 'Tag'
    return add_noise(out)

# ---------------------------------------------------------------------------------------
# C13 EnumIs / EnumTryAs

IS_IDENTS = ['Red', 'Blue2', 'HTTPStatus', 'X1Y2', 'GreenLeaf', 'A', 'Orange9Light', 'NASARocket3', 'V4l2', 'Sha256sum', 'Utf8To16Le']

def corpus_is(tier, seed):
    nm = Namer()
    out = []
    def A(vs, derives=('EnumIs', 'EnumTryAs'), **kw):
        p = parse_prog(nm, vs, stem='Is', derives=derives, **kw)
        out.append(p)
        return p
    A([V('Red'), V('Blue2', 'tuple', ['u8']), V('HTTPStatus', 'tuple', ['i32', 'bool']), V('GreenLeaf', 'named', ['usize'])])
    A([V('X1Y2', 'tuple', ['u8', 'i32', 'bool']), V('Gone', 'tuple', ['u8'], disabled=True), V('A'), V('Orange9Light', 'tuple', ['Tag'])])
    A([V('Unit'), V('Gen', 'tuple', ['T']), V('Pair', 'tuple', ['T', 'u8']), V('Named', 'named', ['T', 'u8'])])
    A([V('Ref', 'tuple', ["&'a str", 'u8']), V('NASARocket3'), V('Gone', disabled=True)])
    A([V('Only', 'tuple', ['usize'])])
    # exactly one enabled variant next to disabled ones (unit and data-carrying)
    A([V('Up'), V('Down', disabled=True), V('Side', 'tuple', ['u8'], disabled=True)])
    A([V('GoneFirst', disabled=True), V('V4l2', 'tuple', ['u8', 'bool'])])
    # more variants than a u8 tag can number
    A([V('W%d' % i) for i in range(257)], derives=('EnumIs',))
    if tier == 'quick':
        return add_noise(out)
    for k in range(30):
        n = 1 + k % 6
        vs = []
        for i in range(n):
            kind = ['unit', 'tuple', 'named', 'tuple'][(k + i) % 4]
            nf = 1 + (k + i) % 3
            tys = {'unit': [], 'tuple': [['u8', 'i32', 'bool', 'usize', 'T', 'Tag'][(k + i + j) % 6] for j in range(nf)], 'named': [TYPES[(k + i) % 4]]}[kind]
            vs.append(V(IS_IDENTS[(i + k) % len(IS_IDENTS)], kind, tys, disabled=((k + i) % 7 == 5)))
        A(vs)
    return add_noise(out)

# ---------------------------------------------------------------------------------------
# C14 EnumMessage / C15 EnumProperty

DOCS = [[], [' doc one'], [''], [' '], ['', ' text after an empty first line'], ['', ''], [' ', '', ' x'], ['  two spaces', ' second'], ['\tTabbed line'], ['\u00a0nbsp first', '\tthen tab', ' then space'], ['no leading space', '', ' after an empty line'], [' quote " backslash \\ brace {x}', ' \u00fcnicode', ' third', '    indented']]

def corpus_msg(tier, seed):
    nm = Namer()
    out = []
    def A(vs, **kw):
        p = parse_prog(nm, vs, stem='Ms', derives=('EnumMessage',), **kw)
        out.append(p)
        return p
    def M(v, message=None, detailed=None, docs=()):
        v.message, v.detailed_message, v.docs = message, detailed, list(docs)
        return v
    A([M(V('A'), 'm', 'dm', DOCS[1]), M(V('B', 'tuple', ['u8']), 'only', None, DOCS[2]), M(V('C', 'named', ['u8'], disabled=True, ser=['cc', 'c2']), None, 'onlyd', DOCS[1]), M(V('D'))])
    A([M(V('RedFox'), None, 'detail only', DOCS[3]), M(V('BlueSky', ts='bleu'), '', '', DOCS[4]), M(V('Gone', disabled=True), 'hidden', 'hidden', DOCS[2]), M(V('Plain', ser=['p', 'plain']), 'msg')], serialize_all='snake_case')
    A([M(V('G', 'tuple', ['T']), 'generic', None, DOCS[1]), M(V('H'))])
    A([M(V('GoneA', disabled=True), 'x'), M(V('GoneB', disabled=True))])
    A([M(V('LinkUp'), 'up'), M(V('LinkDown', ser=['down']), None, 'd'), M(V('Flap', ts='flap!'))], prefix='net.', serialize_all='snake_case')
    # detailed_message written before message, attributes split; doc lines starting with a tab / NBSP keep it
    A([M(V('First'), 'plain', 'detailed', DOCS[8]), M(V('Second', 'tuple', ['u8']), 'only plain', None, DOCS[9]), M(V('Third'), None, 'only detailed')]).attr_layout = 'split_rev'
    A([M(V('First'), 'plain', 'detailed', DOCS[9]), M(V('Second'), 'p2', 'd2', DOCS[7])]).attr_layout = 'split'
    A([M(V('LeadEmpty'), None, None, DOCS[4]), M(V('TwoEmpty'), None, None, DOCS[5]), M(V('SpaceEmptyText', 'tuple', ['u8']), 'm', None, DOCS[6]), M(V('Long'), None, None, DOCS[11]), M(V('Mid'), None, None, DOCS[10])])
    A([M(V('EmptyDoc'), None, None, DOCS[2]), M(V('SpaceDoc'), 'm', None, DOCS[3]), M(V('GoneDetailed', disabled=True), None, 'explicit detailed on a disabled variant', DOCS[2])])
    if tier == 'quick':
        return out
    styles = [None, 'kebab-case', 'SCREAMING_SNAKE_CASE', 'camelCase', 'title_case']
    for k in range(30):
        n = 1 + k % 5
        vs = []
        for i in range(n):
            kind = ['unit', 'tuple', 'named'][(k + i) % 3]
            tys = {'unit': [], 'tuple': [TYPES[(k + i) % 5]], 'named': [TYPES[(k + i + 1) % 5]]}[kind]
            stem = STEMS[(i + k) % len(STEMS)]
            v = V(IS_IDENTS[(i + k) % len(IS_IDENTS)], kind, tys, disabled=((k + i) % 6 == 2),
                  ser=[[], [stem], [stem, stem.upper() + '2']][(k + i) % 3], ts=[None, None, stem + '!'][(k + 2 * i) % 3])
            M(v, [None, 'msg %d' % i, ''][(k + i) % 3], [None, 'detail %d' % i][(k // 2 + i) % 2], DOCS[(k + i) % len(DOCS)])
            vs.append(v)
        A(vs, serialize_all=styles[k % len(styles)]).attr_layout = ['joined', 'split', 'split_rev'][k % 3]
    return out

def corpus_props(tier, seed):
    nm = Namer()
    out = []
    def A(vs, **kw):
        p = parse_prog(nm, vs, stem='Pp', derives=('EnumProperty',), **kw)
        out.append(p)
        return p
    def P(v, *groups):
        v.props = [list(g) for g in groups]
        return v
    A([P(V('A'), [('a', 'x'), ('b', 3), ('c', True)], [('Type', 'kw')]), P(V('B', 'tuple', ['u8']), [('a', 7)], [('b', 'str-here')], [('c', 'c'), ('d', False)]),
       P(V('C', 'named', ['u8'], disabled=True), [('a', 'hidden')]), V('D')])
    A([P(V('Neg'), [('n', -3), ('big', 9223372036854775807), ('zero', 0)]), P(V('Empty'), [('s', ''), ('u', '\u00fc \"q\"')]), P(V('Gen', 'tuple', ['T']), [('n', 'not-an-int')])])
    A([V('NoProps'), V('Gone', disabled=True)])
    A([P(V('Level'), [('level', 'top')], [('level', 3)], [('level', True)]), P(V('IdStr'), [('id', '7'), ('on', 'true')]), P(V('IdInt'), [('id', 7), ('on', True)]),
       P(V('IdStr2', 'tuple', ['u8']), [('id', '7'), ('on', 'true')])]).attr_layout = 'split'
    A([P(V('DarkRed'), [('Teacher', 'x'), ('isMandatory', True), ('snake_key', 3)]), P(V('LightBlue'), [('Teacher', 4)])], serialize_all='snake_case')
    # string properties only, with values that would parse as integers / booleans (no integer or boolean property anywhere in the enum), and a key of 70 bytes
    A([P(V('Code'), [('number', '201'), ('flag', 'true')]), P(V('Other', 'tuple', ['u8']), [('number', '-5')], [('flag', 'false'), ('k' * 70, 'long-key')])])
    if tier == 'quick':
        return out
    keys = ['a', 'b', 'c', 'color', 'Type', 'x1']
    vals = ['x', 3, True, '', -17, False, 'long value with spaces', 255, 'k']
    for k in range(30):
        n = 1 + k % 5
        vs = []
        for i in range(n):
            kind = ['unit', 'tuple', 'named'][(k + i) % 3]
            tys = {'unit': [], 'tuple': [TYPES[(k + i) % 5]], 'named': [TYPES[(k + i + 1) % 5]]}[kind]
            v = V(IS_IDENTS[(i + k) % len(IS_IDENTS)], kind, tys, disabled=((k + i) % 6 == 4))
            np_ = (k + i) % 7
            used = []
            groups = [[] for _ in range(1 + (k + i) % 3)]
            for j in range(min(np_, 6)):
                key = keys[(k + i + j) % len(keys)]
                val = vals[(k + 2 * i + j) % len(vals)]
                if (key, type(val)) in used:
                    continue
                used.append((key, type(val)))
                groups[j % len(groups)].append((key, val))
            v.props = [g for g in groups if g]
            vs.append(v)
        A(vs).attr_layout = ['joined', 'split', 'split_rev'][k % 3]
    return out


# ---------------------------------------------------------------------------------------
# C08: COUNT / VariantNames / VariantArray / iter describe the same list

def corpus_agree(tier, seed):
    nm = Namer()
    out = []
    ALL = ('EnumCount', 'EnumIter', 'VariantNames', 'VariantArray')
    def A(vs, derives=ALL, **kw):
        p = parse_prog(nm, vs, stem='Ag', derives=derives, **kw)
        p.std_derives = ['Debug', 'PartialEq', 'Clone', 'Copy'] if 'VariantArray' in derives else ['Debug', 'PartialEq']
        out.append(p)
        return p
    A([V('Red')])
    A([V('Red'), V('GreenLeaf', ts='leaf'), V('Blue2', ser=['b', 'blue'])], serialize_all='snake_case')
    p = A([V('A'), V('B'), V('C'), V('D')], repr='u8')
    p.variants[0].disc, p.variants[2].disc = '10', '3'
    A([V('Red'), V('Gone', disabled=True), V('Blue'), V('GoneB', disabled=True, ts='bye')], prefix='c.')
    A([V('Unit'), V('Tup', 'tuple', ['u8', 'T']), V('Named', 'named', ['i32']), V('Gone', 'tuple', ['u8'], disabled=True)], derives=('EnumCount', 'EnumIter', 'VariantNames'))
    A([V('X%d' % i) for i in range(8)], serialize_all='SCREAMING_SNAKE_CASE')
    A([V('Dog'), V('Cat', ser=['kitty'], disabled=True), V('Fish', ts='fishy'), V('Bird', aci=True, disabled=True)], serialize_all='lowercase').attr_layout = 'split'
    A([V('Dog', ser=['d']), V('Cat', ser=['kitty'], disabled=True), V('Fish')], derives=('EnumCount', 'EnumIter', 'VariantNames')).attr_layout = 'split_rev'
    A([V('Yes', ser=['oui']), V('Unset', ser=['']), V('No', ts='')])
    # variant counts at the boundary of a narrow integer type (an iterator cursor must also hold the one-past-the-end value)
    for n in (255, 256):
        A([V('V%d' % i) for i in range(n)]).tags += ['N=%d' % n, 'boundary']
    if tier == 'quick':
        return out
    styles = [None, 'kebab-case', 'camelCase', 'UPPERCASE', 'Train-Case']
    for k in range(30):
        n = 1 + k % 7
        fieldless = (k % 3 != 2)
        vs = []
        for i in range(n):
            kind = 'unit' if fieldless else ['unit', 'tuple', 'named'][(k + i) % 3]
            tys = {'unit': [], 'tuple': [TYPES[(k + i) % 5]], 'named': [TYPES[(k + i + 1) % 5]]}[kind]
            stem = STEMS[(i + k) % len(STEMS)]
            vs.append(V(IS_IDENTS[(i + k) % len(IS_IDENTS)], kind, tys, disabled=((k % 2 == 1) and (k + i) % 4 == 1),
                        ser=[[], [stem], [stem, stem + stem]][(k + i) % 3], ts=[None, None, None, stem + '!'][(k + i) % 4]))
        p = A(vs, derives=ALL if fieldless else ('EnumCount', 'EnumIter', 'VariantNames'), serialize_all=styles[k % len(styles)])
        p.attr_layout = ['joined', 'split', 'split_rev'][k % 3]
        if fieldless and k % 4 == 0:
            for i, v in enumerate(p.variants):
                v.disc = str(5 * i + 1) if i % 2 == 0 else None
    return out


# ---------------------------------------------------------------------------------------
# C07 serialize_all

ALL_STYLES = ['camelCase', 'PascalCase', 'kebab-case', 'snake_case', 'SCREAMING_SNAKE_CASE', 'SCREAMING-KEBAB-CASE', 'lowercase', 'UPPERCASE',
              'title_case', 'mixed_case', 'Train-Case', 'camel_case', 'kebab_case', 'snek_case', 'shouty_snake_case', 'shouty_snek_case']

DICTIONARY = [
    'Red', 'DarkBlue', 'HTTPServer', 'XMLHttpRequest', 'Utf8String', 'IPv6Address', 'MyStruct2', 'A', 'AB', 'ABc', 'aB', 'snake_case_name',
    'SCREAMING_NAME', 'Mixed_Snake', 'Trailing_', 'Double__Underscore', 'X1', 'X1Y2', 'Http2', 'HTTP2Server', 'V8Engine', 'Base64Encoded',
    'SHA256Hash', 'lowercase', 'UPPER', 'camelCase', 'PascalCase', 'ID', 'Id', 'UserID', 'UserId', 'parseURL', 'URLParser', 'Foo123Bar', 'Foo123bar',
    'foo123', 'F', 'Ff', 'FF', 'FFf', 'FfF', 'a1b2', 'A1B2', 'A1b2C3', 'Ab1', 'aBC', 'ABCDef', 'AbCdEf', 'Z9', 'Z_9', 'Z9_', 'x_y_z', 'X_Y_Z', 'Xy_Zw',
    'OneTwoThree', 'oneTwoThree', 'ONE_TWO_THREE', 'One2Three', 'One22Three', 'I', 'IOError', 'IoError', 'EOF', 'Eof', 'NaN', 'NAN', 'PdfFile', 'PDFFile',
    'JSONParser', 'JsonParser', 'Html5', 'HTML5', 'Html5Doc', 'HTML5Doc', 'Point3D', 'Point3d', 'Vec2', 'Vec2f', 'U8', 'U16', 'I32Max', 'F64x2', 'Rgb', 'RGB', 'RGBA8',
    'Rgba8', 'DarkGray', 'Dark_Gray', 'dark_gray', 'DARK_GRAY', 'LightSkyBlue', 'MediumVioletRed', 'GreenYellow', 'KeyUp', 'KeyDown', 'F1', 'F12', 'Numpad0', 'NumLock',
    'PrintScreen', 'BrowserBack', 'OSLeft', 'OsRight', 'MacOS', 'IOS', 'IOs', 'WinRT', 'X86_64', 'Aarch64', 'ArmV7', 'Riscv32imc', 'Wasm32', 'TcpIp', 'TCPIP', 'UdpV4',
    'Ok200', 'NotFound404', 'E2BIG', 'ENoEnt', 'Q', 'Qq1', 'QQ1q',
]

def all_identifiers(maxlen):
    first = 'abAB'
    rest = 'abAB1_'
    out = []
    for n in range(1, maxlen + 1):
        for f in first:
            for tail in itertools.product(rest, repeat=n - 1):
                out.append(f + ''.join(tail))
    return out

def corpus_case(tier, seed):
    from . import oracle
    nm = Namer()
    out = []
    ids = all_identifiers(3 if tier == 'quick' else 4)
    chunk = 64
    for style in ALL_STYLES:
        for c in range(0, len(ids), chunk):
            part = ids[c:c + chunk]
            p = parse_prog(nm, [V(i) for i in part], stem='Id', derives=('VariantNames',), serialize_all=style)
            p.std_derives = []
            p.tags = ['style=' + style, 'identifiers %d..%d of %d (exhaustive up to length %d over {a,b,A,B,1,_})' % (c, c + len(part), len(ids), 3 if tier == 'quick' else 4)]
            out.append(p)
    # dictionary: every derive that prints or parses names, with explicit spellings that must not be re-cased
    words = list(DICTIONARY)
    per = 8
    k = 0
    for style in ALL_STYLES:
        pool = words[(7 * k) % len(words):] + words[:(7 * k) % len(words)]
        n_enums = 2 if tier == 'quick' else 15
        idx = 0
        for e in range(n_enums):
            vs, seen = [], set()
            ci_enum = (e % 2 == 1)
            while len(vs) < per and idx < len(pool):
                w = pool[idx]
                idx += 1
                key = oracle.convert_case(style, w)
                fkey = oracle.fold(key) if ci_enum else key
                if fkey in seen or key == '' or oracle.fold(key) in ('explicit-stays', 'keep_me', 'to_string_kept', 'keepme', 'stayput'):
                    continue
                seen.add(fkey)
                vs.append(V(w))
            if not vs:
                break
            vs.append(V('EmptyName', ts=''))
            vs.append(V('KeepMe', ser=['KeepMe']))
            vs.append(V('StayPut', ts='StayPut'))
            vs.append(V('ExplicitSer', ser=['explicit-Stays']))
            vs.append(V('ExplicitTs', ts='to_String_Kept', ser=['Keep_Me']))
            p = parse_prog(nm, vs, stem='Dw', derives=('VariantNames', 'Display', 'AsRefStr', 'IntoStaticStr', 'EnumString', 'EnumMessage'), serialize_all=style, aci=ci_enum)
            p.std_derives = ['Debug', 'PartialEq']
            p.tags = ['style=' + style, 'dictionary']
            out.append(p)
        k += 1
    return out


# ---------------------------------------------------------------------------------------
# C16 use_phf: each program twice (plain twin = prog, phf twin = prog.inner)

def corpus_phf(tier, seed):
    import copy
    nm = Namer()
    out = []
    def A(vs, **kw):
        p = parse_prog(nm, vs, stem='Ph', derives=('EnumString',), **kw)
        p.std_derives = ['Debug', 'PartialEq', 'Clone']
        q = copy.deepcopy(p)
        q.name = p.name + 'F'
        q.use_phf = True
        p.inner = q
        out.append(p)
        return p
    # mixed-case spellings, case-sensitive
    A([V('Red'), V('Green', ser=['g', 'Grn']), V('Blue', ts='BLEU')])
    # case-insensitive at enum level, mixed-case spellings, one variant opting out, a disabled variant, serialize_all
    A([V('RedFox'), V('Gone', disabled=True, ser=['gone']), V('BlueSky', aci=False), V('Green', ser=['Grn', 'vErT'])], aci=True, serialize_all='snake_case')
    # case-insensitive spellings that are already all-lowercase / all-uppercase / caseless / empty / non-ASCII
    A([V('Lower', ser=['lower'], aci=True), V('Plain')])
    A([V('Upper', ser=['UPPER'], aci=True), V('Plain')])
    A([V('Num', ser=['4711'], aci=True), V('Dash', ser=['-'], aci=True), V('Plain')])
    A([V('Empty', ser=[''], aci=True), V('Plain')])
    A([V('Uml', ser=['gr\u00fcn'], aci=True), V('Mixed', ser=['MiXed'], aci=True)])
    A([V('Two', ser=['ab', 'AB'], aci=True), V('Plain')])
    # default variant and custom error
    A([V('Red', aci=True, bare=True), V('Other', 'tuple', ['Cap'], default=True), V('Blue')])
    A([V('Red', ts='RED'), V('Blue', aci=True)], parse_err_ty='PErr', parse_err_fn='perr')
    A([V('GoneA', disabled=True), V('GoneB', disabled=True)])
    # a case-sensitive all-lowercase / all-uppercase spelling next to a case-insensitive variant
    A([V('Red', ser=['red']), V('Blue', ser=['blue'], aci=True), V('Top', ser=['TOP'])])
    # overlapping spellings (outside C01's domain, but the plain twin is the oracle here: first declared wins in both)
    A([V('Any', ser=['any'], aci=True), V('Upper', ser=['ANY']), V('Dup', ser=['any'])])
    # several case-insensitive spellings of different lengths, the longest neither first nor last; mostly-upper-case spellings
    A([V('Red'), V('Yellow'), V('Blue'), V('Ok', ser=['Ok', 'ERR'])], aci=True)
    if tier == 'quick':
        return out
    styles = [None, 'snake_case', 'SCREAMING_SNAKE_CASE', 'kebab-case', 'lowercase', 'UPPERCASE', 'camelCase']
    idents = ['RedFox', 'BlueSky', 'Green', 'DarkGray2', 'HTTPPort', 'Yellow', 'X']
    rnd = random.Random(seed * 13 + 1)
    for k in range(40):
        nv = 1 + k % 5
        vs = []
        for i in range(nv):
            stem = STEMS[(i + k) % len(STEMS)]
            forms = [stem, stem.upper(), stem.title(), stem + '-x', '\u00e9' + stem, stem[:3] + '7', '%d%d' % (k, i)]
            rnd.shuffle(forms)
            mode = (k // 2 + i) % 5
            ser, ts = [], None
            if mode == 1: ser = forms[:1]
            elif mode == 2: ser = forms[:2]
            elif mode == 3: ts = forms[0]
            elif mode == 4: ser, ts = forms[:1], forms[1]
            aci = [None, True, False, True, None][(k + 2 * i) % 5]
            vs.append(V(idents[(i + k) % len(idents)], ser=ser, ts=ts, aci=aci, disabled=((k + i) % 7 == 3)))
        seen = set()
        vs = [v for v in vs if not (v.ident in seen or seen.add(v.ident))]
        kw = dict(serialize_all=styles[k % len(styles)], aci=(k % 3 == 0))
        if k % 5 == 1:
            vs.append(V('Fallback', 'tuple', ['Cap'], default=True))
        elif k % 4 == 2:
            kw.update(parse_err_ty='PErr', parse_err_fn='perr')
        try:
            A(vs, **kw)
        except Exception:
            pass
    return out


# ---------------------------------------------------------------------------------------
# Randomised programs for the string family (thorough tier): every attribute axis drawn independently, literals from a pool of
# shapes that have mattered (case variants, empty, non-ASCII lower/upper, escaped braces, source-escaped characters, prefixes of each
# other, identifier-like literals, equal lengths).  Non-overlap is enforced by rejection.

LIT_SHAPES = [
    lambda w: w, lambda w: w.upper(), lambda w: w.title(), lambda w: w.swapcase(), lambda w: w + ' ' + w, lambda w: w + '!',
    lambda w: w[:1], lambda w: w + '7', lambda w: '7' + w, lambda w: w + '-' + w[::-1], lambda w: '\u00e9' + w, lambda w: '\u00c9' + w.upper(),
    lambda w: w + '\u00df', lambda w: w + '{{}}', lambda w: '{{' + w + '}}', lambda w: w + '"q"', lambda w: w + '\\', lambda w: w + '\n',
    lambda w: w.title() + w.title(), lambda w: w + '_' + w, lambda w: ' ' + w, lambda w: w + '\t',
]
RWORDS = ['alpha', 'bravo', 'charlie', 'delta', 'echo', 'foxtrot', 'golf', 'hotel', 'india', 'juliet', 'kilo', 'lima', 'mike', 'november']
RIDENTS = ['RedFox', 'BlueSky', 'Green', 'DarkGray2', 'HTTPPort', 'Yellow', 'X', 'Orange_Peel', 'teal', 'NASARocket', 'Dark', 'DarkBlue', 'V4l2', 'Id', 'KeepMe', 'I2C']

def random_string_programs(seed, n, nm, family='parse', tries=40):
    from . import oracle
    rnd = random.Random(seed * 2654435761 % (1 << 31) + 77)
    styles = [None, None] + ALL_STYLES
    out = []
    def overlaps(p):
        seen_cs, seen_ci = {}, {}
        for v in p.variants:
            if v.disabled or v.default:
                continue
            ci = oracle.is_ci(p, v)
            for sp in oracle.spellings(p, v):
                for (q, w, cj) in list(seen_cs.values()):
                    pass
            for sp in oracle.spellings(p, v):
                for (q, wid, cj) in [(q, wid, cj) for (q, wid, cj) in seen_all if wid != v.ident]:
                    if (ci or cj) and oracle.fold(sp) == oracle.fold(q):
                        return True
                    if not (ci or cj) and sp == q:
                        return True
            for sp in oracle.spellings(p, v):
                seen_all.append((sp, v.ident, ci))
        return False
    k = 0
    while len(out) < n and k < n * tries:
        k += 1
        nv = rnd.randint(1, 6)
        ids = rnd.sample(RIDENTS, nv)
        vs = []
        have_default = False
        for i, ident in enumerate(ids):
            w = rnd.choice(RWORDS)
            lits = [rnd.choice(LIT_SHAPES)(w) for _ in range(4)]
            if rnd.random() < 0.08:
                lits[0] = ''
            if rnd.random() < 0.08:
                lits[0] = ident
            mode = rnd.choice(['none', 'none', 'ser1', 'ser2', 'ser3', 'ts', 'both'])
            ser, ts = [], None
            if mode == 'ser1': ser = lits[:1]
            elif mode == 'ser2': ser = lits[:2]
            elif mode == 'ser3': ser = lits[:3]
            elif mode == 'ts': ts = lits[0]
            elif mode == 'both': ser, ts = lits[:2], lits[2]
            if family == 'print' and ser:
                # canonical names: distinct lengths unless a tie is wanted
                if rnd.random() < 0.8:
                    ser = [x for j, x in enumerate(ser) if len(x.encode()) not in [len(y.encode()) for y in ser[:j]]]
            kind = rnd.choice(['unit', 'unit', 'tuple', 'named'])
            tys = {'unit': [], 'tuple': [rnd.choice(TYPES[:5])], 'named': [rnd.choice(TYPES[:5]), rnd.choice(TYPES[:5])]}[kind]
            aci = rnd.choice([None, None, True, False]) if family != 'print' else None
            v = V(ident, kind, tys, ser=ser, ts=ts, aci=aci, bare=(aci is True and rnd.random() < 0.5), disabled=(rnd.random() < 0.15))
            if kind == 'tuple' and tys == ['u8'] and rnd.random() < 0.3 and family != 'print':
                v.default_with = 'dw_u8'
            if family != 'print' and not have_default and rnd.random() < 0.12:
                v = V(ident, rnd.choice(['tuple', 'named']), ['Cap'], names=['raw'], default=True, ser=ser if rnd.random() < 0.3 else [], ts=None,
                      disabled=(rnd.random() < 0.1), aci=aci)
                have_default = not v.disabled
            vs.append(v)
        kw = dict(serialize_all=rnd.choice(styles))
        if family != 'print':
            kw['aci'] = rnd.random() < 0.35
            if rnd.random() < 0.25:
                kw.update(parse_err_ty='PErr', parse_err_fn='perr')
        else:
            if rnd.random() < 0.3:
                kw['prefix'] = rnd.choice(['pre.', '', '\u00fc_', 'NS::', ' '])
            if rnd.random() < 0.3:
                kw['const_into_str'] = True
        try:
            p = parse_prog(Namer(nm.k), vs, stem='Rs' if family != 'print' else 'Rp2',
                           derives=('EnumString',) if family != 'print' else PRINTERS, **kw)
        except Exception:
            continue
        p.attr_layout = rnd.choice(['joined', 'split', 'split_rev'])
        seen_all = []
        if family != 'print' and overlaps(p):
            continue
        # printed names must not contain placeholders
        if family == 'print' and any(oracle.has_placeholder(nm_) for v in p.variants for nm_ in oracle.canonical_names(p, v)):
            continue
        nm.k += 1
        p.tags.append('random')
        out.append(p)
    return out
