"""Program families (the `programs` quantifier).  Deterministic enumerated cores + a seeded random tail."""
import itertools, random
from .model import Program, Variant, Field

IDENTS = ['Red', 'Blue', 'Green', 'Yellow', 'Purple', 'Orange', 'Black', 'White', 'Cyan', 'Teal', 'Pink', 'Gray']
GONE = ['GoneA', 'GoneB', 'GoneC']
TYPES = ['u8', 'i32', 'bool', 'usize', 'Tag', '()']

class Namer:
    def __init__(self, start=1):
        self.k = start
    def next(self, stem):
        n = 'P%03d%s' % (self.k, stem)
        self.k += 1
        return n

def mk_variant(ident, kind, k, generic=None):
    """k selects payload types deterministically."""
    if kind == 'unit':
        return Variant(ident, 'unit')
    if kind == 'tuple':
        n = 1 + k % 3
        tys = [TYPES[(k + j) % len(TYPES)] for j in range(n)]
        if generic and k % 2 == 0:
            tys[-1] = generic
        return Variant(ident, 'tuple', [Field(t) for t in tys])
    n = 1 + k % 2
    tys = [TYPES[(k + 2 * j + 1) % len(TYPES)] for j in range(n)]
    if generic and k % 2 == 1:
        tys[0] = generic
    return Variant(ident, 'named', [Field(t, name='f%d' % j) for j, t in enumerate(tys)])

def iter_program(namer, n_enabled, disabled_at=(), kinds='unit', generic=False, const_generic=False, derives=('EnumIter', 'EnumCount'), k0=0):
    """disabled_at: positions (in the final declaration list) that hold disabled variants."""
    total = n_enabled + len(disabled_at)
    vs = []
    ei = 0
    di = 0
    kinds_cycle = {'unit': ['unit'], 'mixed': ['unit', 'tuple', 'named'], 'tuple': ['tuple'], 'named': ['named']}[kinds]
    for pos in range(total):
        if pos in disabled_at:
            v = mk_variant(GONE[di % len(GONE)] + ('' if di < len(GONE) else str(di)), kinds_cycle[(pos + 1) % len(kinds_cycle)], pos + k0, 'T' if generic else None)
            v.disabled = True
            di += 1
        else:
            v = mk_variant(IDENTS[ei % len(IDENTS)] + ('' if ei < len(IDENTS) else str(ei)), kinds_cycle[(ei + k0) % len(kinds_cycle)], ei + k0, 'T' if generic else None)
            ei += 1
        vs.append(v)
    p = Program(namer.next('It'), vs, derives=list(derives))
    uses_t = generic and any(f.ty == 'T' for v in vs for f in v.fields)
    gd, gu, tps = [], [], []
    if uses_t:
        gd.append('T: Default')
        gu.append('T')
        tps.append('T')
    if const_generic:
        gd.append('const K: usize')
        gu.append('K')
    if gd:
        p.generics_decl = '<' + ', '.join(gd) + '>'
        p.generics_use = '<' + ', '.join(gu) + '>'
        p.type_params = tps
    p.std_derives = ['Debug', 'PartialEq']
    p.tags = ['N=%d' % n_enabled, 'disabled_at=%s' % (list(disabled_at),), 'kinds=' + kinds] + (['generic'] if uses_t else []) + (['const_generic'] if const_generic else [])
    return p

def corpus_iter(tier, seed, derives=('EnumIter', 'EnumCount')):
    nm = Namer()
    out = []
    A = lambda *a, **k: out.append(iter_program(nm, *a, derives=derives, **k))
    # quick core
    A(0)
    A(0, (0, 1), kinds='mixed')
    A(1)
    A(2, (0,), kinds='mixed')
    A(3, (1,), kinds='mixed', generic=True)
    A(4, (2, 5), kinds='mixed')
    A(5, (1, 2), kinds='tuple', generic=True)
    A(8)
    A(3, (), kinds='named', const_generic=True)
    A(6, (0, 7), kinds='mixed', generic=True, const_generic=True)
    if tier == 'quick':
        return out
    # every placement of 0..2 disabled variants for N <= 4, alternating kinds
    k = 0
    for n in range(0, 5):
        for nd in range(0, 3):
            for pos in itertools.combinations(range(n + nd), nd):
                kinds = ['unit', 'mixed', 'tuple', 'named'][k % 4]
                A(n, pos, kinds=kinds, generic=(k % 3 == 0), k0=k)
                k += 1
    for n in range(5, 9):
        A(n, (), kinds='mixed', k0=n)
        A(n, (0, n + 1), kinds='mixed', generic=True, k0=n + 1)
    rnd = random.Random(seed)
    for _ in range(12):
        n = rnd.randint(0, 8)
        nd = rnd.randint(0, 3)
        pos = tuple(sorted(rnd.sample(range(n + nd), nd)))
        A(n, pos, kinds=rnd.choice(['unit', 'mixed', 'tuple', 'named']), generic=rnd.random() < 0.4,
          const_generic=rnd.random() < 0.2, k0=rnd.randint(0, 50))
    return out
