"""Driver core: corpus -> expansions -> Verus files -> obligations -> (Kani twin, replay) -> evidence, exit code.

Exit codes: 0 every obligation discharged (KNOWN-FINDING lines allowed); 1 a named obligation failed
(VIOLATION line); 2 undecided (lost anchor, unsupported construct, rlimit/timeout, tool error) - never
a VIOLATION line.
"""
import fnmatch, json, os, re, shutil, sys, time, traceback
from . import expand, rtok, run_verus, assemble

VERIF = expand.VERIF
WORK = expand.WORK

class Undecided(Exception):
    pass

class Obligation:
    def __init__(self, oid, prog, fn, backend, props=None, labels=None):
        self.oid = oid
        self.prog = prog
        self.fn = fn
        self.backend = backend
        self.status = 'pending'       # discharged | failed | undecided
        self.detail = ''
        self.kinds = []               # failure kinds: overflow | postcondition:<label> | precondition:<label> | assertion | rustc
        self.time_us = 0
        self.rlimit = 0
        self.cex = None               # dict from the Kani twin
        self.replayed = None          # True if the counterexample fails natively
        self.file = None
        self.clauses = labels or []
    def to_json(self):
        return {'id': self.oid, 'backend': self.backend, 'status': self.status, 'kinds': self.kinds,
                'time_us': self.time_us, 'clauses': self.clauses}

class Ctx:
    def __init__(self, pid, tier, seed):
        self.pid = pid
        self.tier = tier
        self.seed = seed
        self.t0 = time.time()
        self.dir = os.path.join(WORK, pid)
        self.logs = []
        self.obligations = []
        self.programs = []
        self.rejected = {}
        self.stats = {}
        self.extra = {}
        self.trusted = []
        self.assumptions = []
        self.bounded = []
        self.samples = []
        self.backends = {}
        self.functions_under_contract = set()
        self.not_verified_by_verus = set()
        self.undecided = []
        self.checker_cmds = []
        self.verbose = bool(os.environ.get('VX_VERBOSE'))
    def program_source(self, name):
        for p in self.programs:
            if p.name == name:
                return p.module_source()
        return None
    def log(self, msg):
        line = '[%s %6.1fs] %s' % (self.pid, time.time() - self.t0, msg)
        self.logs.append(line)
        print(line, file=sys.stderr)
        sys.stderr.flush()

def prelude_text():
    with open(os.path.join(VERIF, 'specs', 'prelude.rs')) as f:
        return f.read()

def scan_assumptions(text):
    """Mechanical scan for unchecked assumptions in a generated Verus file."""
    found = []
    for i, line in enumerate(text.splitlines(), 1):
        s = line.strip()
        if s.startswith('//'):
            continue
        for kw in ('external_body', 'assume_specification', 'admit(', 'assume(', 'uninterp ', 'external_type_specification', '#[verifier::external]', 'external_trait'):
            if kw in s:
                found.append((kw.strip('( '), s[:160]))
    return found

CANARY = '''// @@FN vx_canary
proof fn vx_canary()
    ensures false, // @@vx_canary@must_fail
{ }
// @@END vx_canary
'''

class VerusModule:
    """One corpus program rendered as a Verus module."""
    def __init__(self, prog, text, expected, stats=None, dropped=None):
        self.prog = prog
        self.text = text
        self.expected = expected     # [(ident, props, clause labels)] functions that are obligations
        self.stats = stats or {}
        self.dropped = dropped or []

def make_file(path, modules, extra_top=''):
    parts = [prelude_text(), extra_top, 'verus! {']
    for m in modules:
        parts.append('pub mod %s {\nuse super::*;\nuse vstd::prelude::*;\nbroadcast use crate::vx_axioms::axiom_str_ext;\n%s\n}' % (m.prog.name_mod(), m.text))
    parts.append(CANARY)
    parts.append('} // verus!\nfn main() {}\n')
    text = '\n'.join(parts)
    with open(path, 'w') as f:
        f.write(text)
    return text

def classify(msg):
    m = msg.lower()
    if 'overflow' in m or 'underflow' in m:
        return 'overflow'
    if 'postcondition' in m:
        return 'postcondition'
    if 'precondition' in m:
        return 'precondition'
    if 'assertion' in m:
        return 'assertion'
    if 'rlimit' in m or 'resource limit' in m or 'timed out' in m or 'timeout' in m:
        return 'rlimit'
    return 'other'

def verify_modules(ctx, modules, per_file=4, rlimit=None, extra_top='', tag='v'):
    """Write files, run Verus, create obligations.  Returns list of Obligation."""
    vdir = os.path.join(ctx.dir, 'verus')
    os.makedirs(vdir, exist_ok=True)
    groups = [modules[i:i + per_file] for i in range(0, len(modules), per_file)]
    files = []
    for k, g in enumerate(groups):
        path = os.path.join(vdir, '%s_%s_%d.rs' % (ctx.pid.lower(), tag, k))
        text = make_file(path, g, extra_top)
        files.append((path, g, text))
    jobs = max(1, min(8, len(files)))
    t0 = time.time()
    results = run_verus.run_many([f[0] for f in files], jobs=jobs, rlimit=rlimit)
    ctx.log('verus: %d files, %d modules, %.1fs' % (len(files), len(modules), time.time() - t0))
    obls = []
    trusted = set()
    for (path, g, text), res in zip(files, results):
        if res.status in ('error', 'timeout') and len(g) > 1:
            # isolate: one program per file, so that one unsupported expansion does not hide the others
            ctx.log('verus: %s status=%s -> re-running its %d programs one per file' % (os.path.basename(path), res.status, len(g)))
            sub = verify_modules(ctx, g, per_file=1, rlimit=rlimit, extra_top=extra_top, tag=tag + os.path.basename(path)[-4:-3] + 'x%d' % len(obls))
            obls.extend(sub)
            continue
        for kw, line in scan_assumptions(text):
            trusted.add('%s: %s' % (kw, line))
        obls.extend(_collect(ctx, path, g, text, res))
    for t in sorted(trusted):
        if t not in ctx.trusted:
            ctx.trusted.append(t)
    b = ctx.backends.setdefault('verus', {'obligations': 0, 'discharged': 0, 'smt_ms': 0, 'wall_s': 0.0, 'files': 0, 'version': None})
    for res in results:
        b['smt_ms'] += res.smt_ms
        b['wall_s'] += res.wall
        b['files'] += 1
        b['version'] = res.version or b['version']
    ctx.checker_cmds.append('verus <file>.rs --output-json --time --multiple-errors 4 (single-file mode, %d files)' % len(files))
    return obls

def _collect(ctx, path, g, text, res):
    obls = []
    base = os.path.splitext(os.path.basename(path))[0]
    ranges = run_verus.fn_ranges(text)
    # module line ranges
    lines = text.splitlines()
    mod_at = {}
    cur = None
    for i, l in enumerate(lines, 1):
        m = re.match(r'^pub mod (p\d+) \{', l)
        if m:
            cur = m.group(1)
        mod_at[i] = cur
    def owner(line):
        best = None
        for b, e, ident in ranges:
            if b <= line <= e:
                if best is None or (e - b) < (best[1] - best[0]):
                    best = (b, e, ident)
        return (mod_at.get(line), best[2]) if best else (mod_at.get(line), None)
    # canary must fail
    canary = res.functions.get('%s::vx_canary' % base)
    if res.status in ('ok', 'failed'):
        if canary is None or canary['success']:
            raise Undecided('canary obligation `ensures false` did not fail in %s: prelude inconsistent or verifier not checking' % path)
    # functions whose body contains a loop: Verus needs an inductive invariant there, which nobody wrote for generated code, so a
    # failed obligation of such a function says nothing about the property -> undecided (the Kani fallback then stands in)
    src_lines = text.splitlines()
    loop_re = re.compile(r'\bwhile\b|\bloop\s*\{|\bfor\s+[^;{]+\s+in\b')
    has_loop = set()
    for b, e, ident in ranges:
        body = '\n'.join(l for l in src_lines[b:e] if not l.strip().startswith('//') and '// @@' not in l)
        if loop_re.search(body):
            has_loop.add((mod_at.get(b), ident))
    by_fn = {}
    unattributed = []
    for e in res.errors:
        own = None
        for ln in e['lines']:
            mod, ident = owner(ln)
            if ident is not None:
                own = (mod, ident)
                break
        if own is None:
            unattributed.append(e)
        else:
            by_fn.setdefault(own, []).append(e)
    for m in g:
        modname = m.prog.name_mod()
        for ident, props, labels in m.expected:
            o = Obligation('%s/%s' % (m.prog.name, ident), m.prog.name, ident, 'verus', props, labels)
            o.file = path
            o.props = props
            vname = '%s::%s::%s' % (base, modname, ident)
            ent = res.functions.get(vname)
            errs = by_fn.get((modname, ident), [])
            if res.status in ('error', 'timeout'):
                o.status = 'undecided'
                o.detail = 'verus status=%s\n%s' % (res.status, '\n'.join(e['text'] for e in res.errors[:6]) or res.raw_err[-2000:])
                # which function the compiler / Verus front end complained about (the file is rejected as a whole)
                culprits = set(k for k in by_fn if k[0] == modname)
                o.culprit = (not culprits) or ((modname, ident) in culprits)
            elif ent is None:
                o.status = 'undecided'
                o.detail = 'function not reported by verus (no obligation generated?)'
            else:
                o.time_us = ent['time_us']
                o.rlimit = ent['rlimit']
                if ent['success'] and not errs:
                    o.status = 'discharged'
                else:
                    kinds = []
                    for e in errs:
                        k = classify(e['msg'])
                        labs = [l.split('@', 1)[1] for l in e['labels'] if '@' in l]
                        if k in ('postcondition', 'precondition') and labs:
                            for l in labs:
                                kinds.append('%s:%s' % (k, l))
                        else:
                            kinds.append(k)
                    o.kinds = sorted(set(kinds))
                    o.detail = '\n'.join(e['text'] for e in errs)
                    if (modname, ident) in has_loop:
                        o.status = 'undecided'
                        o.detail = 'verus status=error (loop)\nthe generated function contains a loop; no inductive invariant is available for generated code\n' + o.detail
                    elif any(k == 'rlimit' for k in kinds) or not errs:
                        o.status = 'undecided'
                        if not errs:
                            o.detail = 'verus reports failure without a diagnostic for this function'
                    elif all(k == 'other' for k in kinds):
                        o.status = 'undecided'
                    else:
                        o.status = 'failed'
            obls.append(o)
    if res.status == 'failed' and unattributed:
        real = [e for e in unattributed if 'vx_canary' not in e['text'] and 'aborting due to' not in e['msg']]
        if real:
            ctx.log('verus: %d diagnostics not attributable to a contracted function in %s' % (len(real), path))
            ctx.undecided.append('unattributed diagnostics in %s: %s' % (os.path.basename(path), real[0]['text'][:500]))
    return obls

def note_rejected(ctx, rejected):
    ctx.rejected = rejected
    for name, msg in rejected.items():
        o = Obligation('%s/rustc-accepts-program' % name, name, 'rustc', 'rustc')
        o.status = 'failed'
        o.kinds = ['rustc']
        o.detail = msg
        ctx.obligations.append(o)

# ---------------------------------------------------------------------------------------
# known findings

def load_known():
    p = os.path.join(VERIF, 'known_findings.json')
    if not os.path.exists(p):
        return []
    with open(p) as f:
        return json.load(f)

def finding_key(o):
    role = o.fn.replace(o.prog, 'E')
    return '%s#%s' % (role, '+'.join(o.kinds))

def match_known(pid, o):
    for k in load_known():
        if k.get('status') != 'finding' or k.get('property') != pid:
            continue
        if fnmatch.fnmatch(finding_key(o), k['key']):
            return k
    return None

# ---------------------------------------------------------------------------------------
# evidence + verdict

def finish(ctx, level='proof', rule='', exhaustive=None, extra_cov=None):
    obls = ctx.obligations
    failed = [o for o in obls if o.status == 'failed']
    undec = [o for o in obls if o.status == 'undecided']
    known_lines = []
    violations = []
    for o in failed:
        k = match_known(ctx.pid, o)
        if k:
            line = 'KNOWN-FINDING: property=%s %s' % (ctx.pid, k['what'])
            if line not in known_lines:
                known_lines.append(line)
        else:
            violations.append(o)
    replay_paths = []
    rdir = os.path.join(VERIF, 'replay', ctx.pid)
    if violations:
        if os.path.isdir(rdir):
            shutil.rmtree(rdir)
        os.makedirs(rdir, exist_ok=True)
    for i, o in enumerate(violations):
        path = os.path.join(rdir, 'v%02d_%s.json' % (i, re.sub(r'[^A-Za-z0-9_.-]+', '_', o.oid)[:80]))
        with open(path, 'w') as f:
            json.dump({'property': ctx.pid, 'obligation': o.oid, 'backend': o.backend, 'kinds': o.kinds,
                       'verifier_output': o.detail, 'program': ctx.program_source(o.prog),
                       'counterexample': o.cex, 'replayed_natively': o.replayed,
                       'replay_program': getattr(o, 'replay_program', None),
                       'verus_file': o.file}, f, indent=1)
        replay_paths.append((o, path))
    by_backend = {}
    for o in obls:
        b = by_backend.setdefault(o.backend, [0, 0])
        b[0] += 1
        if o.status == 'discharged':
            b[1] += 1
    for name, (n, d) in by_backend.items():
        be = ctx.backends.setdefault(name, {})
        be['obligations'] = n
        be['discharged'] = d
    n_obl = len(obls)
    n_dis = len([o for o in obls if o.status == 'discharged'])
    cov = {
        'obligations': n_obl,
        'discharged': n_dis,
        'checker_cmd': '; '.join(sorted(set(ctx.checker_cmds))) or 'none',
        'trusted_base': ctx.trusted,
        'programs': len(ctx.programs),
        'program_rule': rule,
        'programs_rejected_by_rustc': sorted(ctx.rejected.keys()),
        'functions_under_contract': sorted(ctx.functions_under_contract),
        'backends': ctx.backends,
        'bounded': ctx.bounded,
        'extraction_rewrites': ctx.stats,
        'not_verified_by_verus': sorted(ctx.not_verified_by_verus),
        'samples': ctx.samples[:8],
        'undecided': [o.oid for o in undec] + ctx.undecided,
        'failed': [{'id': o.oid, 'kinds': o.kinds} for o in failed],
        'known_findings_reported': known_lines,
    }
    if exhaustive is not None:
        cov['exhaustive'] = exhaustive
    if extra_cov:
        cov.update(extra_cov)
    ev = {
        'property_id': ctx.pid, 'tier': ctx.tier, 'seed': ctx.seed, 'level': level,
        'coverage': cov, 'assumptions': ctx.assumptions, 'wall_s': round(time.time() - ctx.t0, 2),
        'violations': len(violations),
    }
    os.makedirs(os.path.join(VERIF, 'evidence'), exist_ok=True)
    with open(os.path.join(VERIF, 'evidence', ctx.pid + '.json'), 'w') as f:
        json.dump(ev, f, indent=1, sort_keys=True)
    for l in known_lines:
        print(l)
    for o, path in replay_paths:
        suffix = '' if o.replayed else ' no-failing-input-found'
        print('obligation failed: %s [%s] backend=%s' % (o.oid, ','.join(o.kinds), o.backend))
        print('VIOLATION property=%s replay=%s%s' % (ctx.pid, path, suffix))
    print('%s: %d obligations, %d discharged, %d failed (%d known), %d undecided; programs=%d; %.1fs' % (
        ctx.pid, n_obl, n_dis, len(failed), len(failed) - len(violations), len(undec) + len(ctx.undecided), len(ctx.programs), time.time() - ctx.t0))
    if violations:
        return 1
    if undec or ctx.undecided or n_obl == 0:
        for o in undec[:3]:
            print('UNDECIDED %s: %s' % (o.oid, o.detail[:700]))
        if len(undec) > 3:
            print('UNDECIDED ... and %d more obligations' % (len(undec) - 3))
        for u in ctx.undecided[:10]:
            print('UNDECIDED %s' % u[:600])
        if n_obl == 0:
            print('UNDECIDED: zero obligations generated')
        return 2
    return 0
