"""Assembler: generated items (token trees from the real proc-macro) -> one Verus module.

Rewrite rules R1-R9 of DESIGN.md section 3 are implemented here and nowhere else.  Function
bodies are only touched by R5 (panic! -> vx_panic), R6 (& of binding-free reference patterns) and
the R1 re-pointing of calls that went through a trait.  Every application is counted in `stats`.
"""
from collections import Counter
from . import rtok
from .rtok import Tok, Group

class LostAnchor(Exception):
    pass

class Contract:
    def __init__(self, requires=(), ensures=(), ret='r', rename=None, free=False, body_subst=(), drop_const=True,
                 self_ty=None, note=None, extra_generics=None, props=(), optional=False, params=()):
        self.requires = list(requires)   # [(label, text)]
        self.ensures = list(ensures)     # [(label, text)]
        self.ret = ret
        self.rename = rename             # new function name (R1, when two trait impls collide on `from`)
        self.free = free                 # emit as a free function (foreign Self type)
        self.body_subst = list(body_subst)  # [(pattern-token-texts, replacement-text)] R1 re-pointing
        self.props = list(props)         # property ids this obligation counts for
        self.note = note
        self.optional = optional         # the function need not be generated (e.g. an override of a std default method)
        self.params = list(params)       # names the clauses use for the non-self parameters, in order; renamed to the generated names

def T(text):
    return rtok.parse(text)

# ---------------------------------------------------------------------------------------

def r3_phantom(toks, stats):
    """R3: PhantomData<fn() -> X> -> PhantomData<X>."""
    def f(lst):
        out = []
        i = 0
        while i < len(lst):
            t = lst[i]
            if (t.is_i('fn') and i + 2 < len(lst) and isinstance(lst[i + 1], Group) and lst[i + 1].delim == '('
                    and not lst[i + 1].items and lst[i + 2].is_p('->') and i > 0 and lst[i - 1].is_p('<')):
                stats['R3'] += 1
                i += 3
                continue
            out.append(t)
            i += 1
        return out
    return rtok.walk(toks, f)

def r11_strum_path(toks, stats):
    """R11: a leading `:: strum ::` path (the extern crate) is re-pointed at the prelude's mirror module `crate::strum`."""
    def f(lst):
        out = []
        i = 0
        while i < len(lst):
            t = lst[i]
            if (t.is_p('::') and i + 2 < len(lst) and lst[i + 1].is_i('strum') and lst[i + 2].is_p('::')
                    and not (i > 0 and (lst[i - 1].is_i() or lst[i - 1].is_p('>')))):
                out.append(Tok('ident', 'crate'))
                stats['R11'] += 1
            out.append(t)
            i += 1
        return out
    return rtok.walk(toks, f)

def r5_panic(toks, stats):
    """R5: panic!(..) -> vx_panic(..)."""
    def f(lst):
        out = []
        i = 0
        while i < len(lst):
            t = lst[i]
            if t.is_i('panic') and i + 2 < len(lst) and lst[i + 1].is_p('!') and isinstance(lst[i + 2], Group):
                stats['R5'] += 1
                args = lst[i + 2].items
                # keep only the first argument (the message literal); trailing comma dropped
                first = rtok.split_top(args, ',')
                out.append(Tok('ident', 'vx_panic'))
                out.append(Group('(', first[0] if first else [Tok('lit', '""')]))
                i += 3
                continue
            out.append(t)
            i += 1
        return out
    return rtok.walk(toks, f)

def _binds_nothing(group_or_none):
    if group_or_none is None:
        return True
    its = group_or_none.items
    return all(x.is_p('..') or x.is_p(',') or x.is_i('_') for x in its)

def r6_refpat(toks, stats):
    """R6: in match arms, `& Path :: V { .. }` / `& Path :: V ( .. )` / `& Path :: V` (binding nothing) loses the `&`.
    Applied only at the start of an arm (after `{` or `,` at match-body level) followed by `=>`."""
    def f(lst):
        out = []
        i = 0
        n = len(lst)
        while i < n:
            t = lst[i]
            at_arm_start = (i == 0) or lst[i - 1].is_p(',') or lst[i - 1].is_p('|') or (isinstance(lst[i - 1], Group) and lst[i - 1].delim == '{')
            if t.is_p('&') and at_arm_start:
                # scan a path
                j = i + 1
                if j < n and lst[j].is_p('::'):
                    j += 1
                ok = j < n and lst[j].is_i()
                while ok and j + 1 < n and lst[j + 1].is_p('::') and j + 2 < n and lst[j + 2].is_i():
                    j += 2
                if ok:
                    k = j + 1
                    grp = None
                    if k < n and isinstance(lst[k], Group) and lst[k].delim in '({':
                        grp = lst[k]
                        k += 1
                    if k < n and (lst[k].is_p('=>') or lst[k].is_p('|')) and _binds_nothing(grp):
                        stats['R6'] += 1
                        i += 1      # drop the '&'
                        continue
            out.append(t)
            i += 1
        return out
    return rtok.walk(toks, f)

def subst_seq(toks, pattern, repl, stats=None, key=None):
    """Replace every occurrence of the flat token-text `pattern` by the tokens `repl` (recursively)."""
    m = len(pattern)
    def f(lst):
        out = []
        i = 0
        while i < len(lst):
            hit = i + m <= len(lst)
            if hit:
                for k in range(m):
                    it = lst[i + k]
                    pk = pattern[k]
                    if isinstance(pk, (list, tuple)):
                        # a parenthesised group whose flat token texts are pk
                        if not (isinstance(it, Group) and it.delim == '(' and flat_texts(it.items) == list(pk)):
                            hit = False
                            break
                    elif isinstance(it, Group) or it.text != pk:
                        hit = False
                        break
            if hit:
                out.extend(repl)
                if stats is not None:
                    stats[key] += 1
                i += m
            else:
                out.append(lst[i])
                i += 1
        return out
    return rtok.walk(toks, f)

def flat_texts(toks):
    out = []
    for t in toks:
        if isinstance(t, Group):
            out.append(t.delim)
            out.extend(flat_texts(t.items))
            out.append({'(': ')', '[': ']', '{': '}'}[t.delim])
        else:
            out.append(t.text)
    return out

DROP_ATTRS = ('doc', 'inline', 'must_use', 'allow')
KEEP_DERIVES = ('Clone', 'Copy', 'PartialEq', 'Eq')

def filter_attrs(attrs, stats, keep_derives=KEEP_DERIVES):
    """R7."""
    out = []
    for a in attrs:
        head = a[0].text if a and not isinstance(a[0], Group) else None
        if head in DROP_ATTRS:
            stats['R7'] += 1
            continue
        if head == 'derive':
            names = [p for p in rtok.split_top(a[1].items, ',')]
            kept = []
            for nm in names:
                last = rtok.path_last_ident(nm)
                if last in keep_derives:
                    kept.append(last)
                else:
                    stats['R7'] += 1
            if kept:
                out.append('#[derive(%s)]' % ', '.join(kept))
            continue
        out.append('#[' + rtok.render(a) + ']')
    return out

class Assembled:
    def __init__(self):
        self.text = ''
        self.functions = []     # [(verus function path suffix, key, contract)]
        self.stats = Counter()
        self.dropped = []       # generated functions not placed under contract
        self.seen_keys = set()

def trait_key(trait_toks):
    """Last path segment of the trait; for `From<X>` / `From<&X>` the (last identifier of the) argument type is kept, so that
    `From<E>` and `From<&E>` impls for the same Self type - or for two enums of one group - have different keys."""
    if trait_toks is None:
        return None
    name = rtok.path_last_ident(trait_toks)
    if name != 'From':
        return name
    idx = None
    for i, t in enumerate(trait_toks):
        if t.is_i(name):
            idx = i
    args = trait_toks[idx + 2:-1] if idx is not None and idx + 1 < len(trait_toks) and trait_toks[idx + 1].is_p('<') else []
    amp = '&' if args and args[0].is_p('&') else ''
    inner = rtok.path_last_ident([t for t in args if t.kind != 'lifetime' and not t.is_p('&')]) or ''
    return 'From<%s%s>' % (amp, inner)

def fn_key(self_ident, trait_ident, name):
    return (self_ident, trait_ident, name)

def assemble_program(prog, items, plan, const_plan=None, type_names=None, drop_impl_traits=('Debug', 'FusedIterator')):
    """items: list[rtok.Item] generated for this program.
    plan: {(self_ident, trait_ident|None, fn_name): Contract}
    const_plan: {(self_ident, trait_ident|None, const_name): (ensures list)}  -> exec const (R4)
    Returns Assembled with the text of the *generated* part (structs, impls)."""
    res = Assembled()
    st = res.stats
    out = []
    const_plan = const_plan or {}
    for it in items:
        it.toks = r11_strum_path(it.toks, st)
    # associated types of every generated trait impl: {self_ident: {(trait_ident, name): tokens}}
    assoc_all = {}
    for it in items:
        if it.kind != 'impl':
            continue
        h0 = rtok.parse_impl(it)
        if h0.trait is None:
            continue
        si = rtok.path_last_ident(h0.self_ty) or rtok.render(h0.self_ty)
        ti = trait_key(h0.trait)
        for m in rtok.split_items(h0.body.items):
            if m.kind == 'type':
                eq = [i for i, t in enumerate(m.toks) if t.is_p('=')][0]
                assoc_all.setdefault(si, {})[(ti, m.name)] = m.toks[eq + 1:-1]
    for it in items:
        if it.kind in ('struct', 'enum'):
            attrs = filter_attrs(it.attrs, st)
            toks = r3_phantom(it.toks, st)
            out.extend(attrs)
            out.append(rtok.render_pretty(toks))
            continue
        if it.kind != 'impl':
            raise LostAnchor('unexpected generated item kind %s: %s' % (it.kind, rtok.render(it.toks[:8])))
        h = rtok.parse_impl(it)
        self_ident = rtok.path_last_ident(h.self_ty) or rtok.render(h.self_ty)
        trait_ident = trait_key(h.trait)
        if trait_ident in drop_impl_traits:
            st['R7'] += 1
            continue
        members = rtok.split_items(h.body.items)
        # associated types of this impl
        assoc = dict(assoc_all.get(self_ident, {}))
        for (ti, nm), toks_ in list(assoc.items()):
            if ti == trait_ident:
                assoc[(None, nm)] = toks_      # `Self::Name` inside the impl of that trait
        emitted = []
        after = []
        for m in members:
            if m.kind == 'type':
                st['R1.assoc_type_dropped'] += 1
                continue
            if m.kind == 'const':
                key = fn_key(self_ident, trait_ident, m.name)
                res.seen_keys.add(key)
                if key not in const_plan:
                    res.dropped.append('%s::%s (const)' % (self_ident, m.name))
                    continue
                ctext, lemma, vname = _emit_const(m, const_plan[key], assoc, h, st)
                if ctext:
                    emitted.append(ctext)
                if lemma:
                    after.append(lemma)
                res.functions.append((vname, key, const_plan[key]))
                continue
            if m.kind != 'fn':
                raise LostAnchor('unexpected impl member %s in impl for %s' % (m.kind, self_ident))
            key = fn_key(self_ident, trait_ident, m.name)
            res.seen_keys.add(key)
            c = plan.get(key)
            if c is None:
                res.dropped.append('%s%s::%s' % (self_ident, (' as ' + trait_ident) if trait_ident else '', m.name))
                continue
            text, vname = _emit_fn(m, c, assoc, h, trait_ident, self_ident, st)
            if c.free:
                out.append(text)
            else:
                emitted.append(text)
            res.functions.append((vname, key, c))
        if not emitted:
            out.extend(after)
        if emitted:
            gen = ('< ' + rtok.render(h.generics) + ' >') if h.generics else ''
            where = (' where ' + rtok.render(h.where)) if h.where else ''
            if trait_ident is not None:
                st['R1.trait_impl_to_inherent'] += 1
            out.append('impl%s %s%s {' % (gen, rtok.render(h.self_ty), where))
            out.extend(emitted)
            out.append('}')
            out.extend(after)
    res.text = '\n'.join(out)
    return res

def _replace_assoc(toks, assoc, trait_ident, st):
    """<Self as Trait>::Name and Self::Name -> the associated type's definition."""
    if not assoc:
        return toks
    def f(lst):
        out = []
        i = 0
        n = len(lst)
        while i < n:
            # < Self as PATH > :: Name
            if lst[i].is_p('<') and i + 2 < n and lst[i + 1].is_i('Self') and lst[i + 2].is_i('as'):
                j = i + 3
                depth = 1
                while j < n and depth > 0:
                    if lst[j].is_p('<'):
                        depth += 1
                    elif lst[j].is_p('>'):
                        depth -= 1
                    j += 1
                # j is one past the closing '>'
                tr = rtok.path_last_ident(lst[i + 3:j - 1])
                if j + 1 < n and lst[j].is_p('::') and lst[j + 1].is_i() and (tr, lst[j + 1].text) in assoc:
                    out.extend(assoc[(tr, lst[j + 1].text)])
                    st['R1.assoc_type_inlined'] += 1
                    i = j + 2
                    continue
            if lst[i].is_i('Self') and i + 2 < n and lst[i + 1].is_p('::') and lst[i + 2].is_i() and (None, lst[i + 2].text) in assoc \
                    and not (i + 3 < n and lst[i + 3].is_p('::')):
                out.extend(assoc[(None, lst[i + 2].text)])
                st['R1.assoc_type_inlined'] += 1
                i += 3
                continue
            out.append(lst[i])
            i += 1
        return out
    return rtok.walk(toks, f)

def _clauses(kind, lst, ident):
    if not lst:
        return []
    out = ['    ' + kind]
    for label, text in lst:
        out.append('        %s, // @@%s@%s' % (text, ident, label))
    return out

def _param_names(group):
    """Names of the non-self parameters (None where the pattern is not a plain identifier)."""
    pieces, cur, depth = [], [], 0
    for t in group.items:
        if t.is_p('<'):
            depth += 1
        elif t.is_p('>'):
            depth -= 1
        if t.is_p(',') and depth == 0:
            pieces.append(cur)
            cur = []
        else:
            cur.append(t)
    if cur:
        pieces.append(cur)
    names = []
    for pc in pieces:
        head = []
        for t in pc:
            if t.is_p(':'):
                break
            head.append(t)
        if any(t.is_i('self') for t in head):
            continue
        head = [t for t in head if not t.is_i('mut')]
        names.append(head[0].text if len(head) == 1 and head[0].is_i() else None)
    return names

def _rename_params(c, actual):
    """The clauses are written over the contract's own parameter names; the generated function may call them anything."""
    import re
    req, ens = list(c.requires), list(c.ensures)
    for i, cname in enumerate(c.params):
        if i < len(actual) and actual[i] and actual[i] != cname:
            rx = re.compile(r'\b%s\b' % re.escape(cname))
            req = [(l, rx.sub(actual[i], t)) for l, t in req]
            ens = [(l, rx.sub(actual[i], t)) for l, t in ens]
    return req, ens

def _emit_fn(m, c, assoc, h, trait_ident, self_ident, st):
    s = rtok.parse_fn(m)
    name = c.rename or s.name
    if c.rename:
        st['R1.renamed'] += 1
    prefix = [t for t in s.prefix if not t.is_i('const')]
    if len(prefix) != len(s.prefix):
        st['R10.const_qualifier_dropped'] += 1
    params = _replace_assoc([s.params], assoc, trait_ident, st)[0]
    ret = _replace_assoc(s.ret, assoc, trait_ident, st) if s.ret is not None else None
    body = _replace_assoc([s.body], assoc, trait_ident, st)
    body = r5_panic(body, st)
    body = r6_refpat(body, st)
    for pat, repl in c.body_subst:
        before = st['R1.call_repointed']
        # `pat` is one pattern or a list of alternative spellings of the same call
        alts = pat if (pat and isinstance(pat[0], list) and all(isinstance(x, list) for x in pat) and not any(isinstance(y, str) for y in pat)) else [pat]
        for alt in alts:
            body = subst_seq(body, alt, T(repl), st, 'R1.call_repointed')
            if st['R1.call_repointed'] != before:
                break
        if st['R1.call_repointed'] == before:
            pat = alts[0]
            raise LostAnchor('call to re-point not found in %s::%s: %s' % (self_ident, s.name, ' '.join(str(x) for x in pat)))
    generics = list(s.generics)
    where = list(s.where)
    if c.free:
        st['R1.foreign_self_to_free_fn'] += 1
        # move the impl generics to the function
        g = list(h.generics)
        if g and generics:
            g = g + [Tok('punct', ',')] + generics
        elif generics:
            g = generics
        generics = g
        if h.where:
            where = list(h.where) + ([Tok('punct', ',')] + where if where else [])
        # `Self` is not available in a free function
        selfty = h.self_ty
        params = subst_seq([params], ['Self'], selfty)[0]
        body = subst_seq(body, ['Self'], selfty)
        if ret is not None:
            ret = subst_seq(ret, ['Self'], selfty)
    ident = name if c.free else '%s::%s' % (self_ident, name)
    lines = ['// @@FN %s' % ident]
    if c.note:
        lines.append('// ' + c.note)
    sig = rtok.render(prefix) + ' fn ' + name
    if generics:
        sig += ' < ' + rtok.render(generics) + ' >'
    sig += ' ' + rtok.render([params])
    if ret is not None:
        sig += ' -> (%s: %s)' % (c.ret, rtok.render(ret))
    lines.append(sig.strip())
    if where:
        lines.append('    where ' + rtok.render(where))
    req, ens = _rename_params(c, _param_names(s.params)) if c.params else (c.requires, c.ensures)
    lines.extend(_clauses('requires', req, ident))
    lines.extend(_clauses('ensures', ens, ident))
    lines.append(rtok.render_pretty(body))
    lines.append('// @@END %s' % ident)
    st['R2.contracts_inserted'] += 1
    vname = name if c.free else ident
    return '\n'.join(lines), vname

def _emit_const(m, c, assoc, h, st):
    """Scalar associated consts are kept verbatim (Verus treats them as dual-mode consts); the contract
    becomes a proof fn placed after the impl.  Slice-typed consts use R4 (`exec const .. ensures`)."""
    toks = m.toks
    i = 0
    pre = []
    while not toks[i].is_i('const'):
        pre.append(toks[i])
        i += 1
    name = toks[i + 1].text
    assert toks[i + 2].is_p(':')
    eq = None
    depth = 0
    for j in range(i + 3, len(toks)):
        if toks[j].is_p('<'):
            depth += 1
        elif toks[j].is_p('>'):
            depth -= 1
        elif toks[j].is_p('=') and depth == 0:
            eq = j
            break
    ty = toks[i + 3:eq]
    expr = toks[eq + 1:-1]
    self_ident = rtok.path_last_ident(h.self_ty)
    ident = '%s::%s' % (self_ident, name)
    is_slice = any(isinstance(t, Group) and t.delim == '[' for t in ty)
    if is_slice:
        # R4: associated slice const -> module-level `exec const <Self>_<Trait>_<NAME> .. ensures .. { init }`
        st['R4'] += 1
        tr = trait_key(h.trait) or 'impl'
        hoisted = '%s_%s_%s' % (self_ident, tr, name)
        ty2 = subst_seq(ty, ['Self'], h.self_ty)
        expr2 = subst_seq(expr, ['Self'], h.self_ty)
        lines = ['// @@FN %s' % hoisted,
                 'pub exec const %s : %s' % (hoisted, rtok.render(ty2))]
        lines.extend(_clauses('ensures', c.ensures, hoisted))
        lines.append('{ ' + rtok.render(expr2) + ' }')
        lines.append('// @@END %s' % hoisted)
        return '', '\n'.join(lines), hoisted
    ctext = rtok.render(toks)
    vname = 'vx_const_%s_%s' % (self_ident, name)
    gen = ('< ' + rtok.render(h.generics) + ' >') if h.generics else ''
    where = (' where ' + rtok.render(h.where)) if h.where else ''
    lines = ['// @@FN %s' % vname, 'proof fn %s%s()%s' % (vname, gen, where)]
    lines.extend(_clauses('ensures', c.ensures, vname))
    lines.append('{ }')
    lines.append('// @@END %s' % vname)
    st['R2.contracts_inserted'] += 1
    return ctext, '\n'.join(lines), vname


def find_assoc_type(items, self_ident, trait_ident, name):
    """Tokens of `type <name> = ..;` in the generated `impl <trait_ident> for <self_ident>` (R11 applied), or None."""
    st = Counter()
    for it in items:
        if it.kind != 'impl':
            continue
        h = rtok.parse_impl(it)
        if h.trait is None or trait_key(h.trait) != trait_ident:
            continue
        if (rtok.path_last_ident(h.self_ty) or '') != self_ident:
            continue
        for m in rtok.split_items(h.body.items):
            if m.kind == 'type' and m.name == name:
                eq = [i for i, t in enumerate(m.toks) if t.is_p('=')][0]
                return r11_strum_path(m.toks[eq + 1:-1], st)
    return None
