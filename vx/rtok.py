"""Rust token trees for the text printed by strum_macros under STRUM_DEBUG=1.

The proc-macro prints `TokenStream::to_string()`.  This module lexes that text into
tokens, groups them by delimiter, and splits a stream into items / impl members.  It
never evaluates or normalises anything: `render()` of an unmodified tree gives back a
token-for-token identical stream (only whitespace differs).
"""
import re

class LexError(Exception):
    pass

_PUNCT3 = ['..=', '...', '<<=', '>>=']
_PUNCT2 = ['::', '->', '=>', '==', '!=', '<=', '>=', '&&', '||', '..', '+=', '-=', '*=', '/=', '%=', '^=', '&=', '|=']
# NOTE: '<<' / '>>' are never joined: `Option << Self as Iterator > :: Item >` is printed by
# rustc with the generic brackets adjacent, and generated code contains no shifts.
_TOKEN_RE = re.compile(r'''
    (?P<ws>\s+)
  | (?P<lcomment>//[^\n]*)
  | (?P<rawstr>b?r(?P<hashes>\#*)"(?:.|\n)*?"(?P=hashes))
  | (?P<str>b?"(?:\\.|\\\n|[^"\\])*")
  | (?P<char>b?'(?:\\(?:[nrt\\0'"]|x[0-9a-fA-F]{2}|u\{[0-9a-fA-F_]+\})|[^'\\\n])')
  | (?P<lifetime>'[A-Za-z_][A-Za-z0-9_]*)
  | (?P<num>\d[0-9a-zA-Z_]*(?:\.\d[0-9a-zA-Z_]*)?)
  | (?P<ident>(?:r\#)?[A-Za-z_][A-Za-z0-9_]*)
  | (?P<open>[\(\[\{])
  | (?P<close>[\)\]\}])
  | (?P<punct>\.\.=|\.\.\.|::|->|=>|==|!=|<=|>=|&&|\|\||\.\.|\+=|-=|\*=|/=|%=|\^=|&=|\|=|[-+*/%^!&|=<>@.,;:\#$?~])
''', re.X)

class Tok:
    __slots__ = ('kind', 'text', 'joint')
    def __init__(self, kind, text, joint=False):
        self.kind = kind      # ident | lit | lifetime | punct
        self.text = text
        self.joint = joint    # '<' / '>' printed immediately before the same character (`<<`, `>>`)
    def __repr__(self):
        return 'Tok(%s,%r)' % (self.kind, self.text)
    def is_p(self, t):
        return self.kind == 'punct' and self.text == t
    def is_i(self, t=None):
        return self.kind == 'ident' and (t is None or self.text == t)

class Group:
    __slots__ = ('delim', 'items')
    def __init__(self, delim, items):
        self.delim = delim    # '(' '[' '{'
        self.items = items
    kind = 'group'
    text = None
    def __repr__(self):
        return 'Group(%s,%d)' % (self.delim, len(self.items))
    def is_p(self, t):
        return False
    def is_i(self, t=None):
        return False

_CLOSE = {'(': ')', '[': ']', '{': '}'}

def lex(text):
    pos = 0
    out = []
    n = len(text)
    while pos < n:
        m = _TOKEN_RE.match(text, pos)
        if not m:
            raise LexError('cannot lex at %d: %r' % (pos, text[pos:pos + 40]))
        pos = m.end()
        k = m.lastgroup
        if k == 'hashes':
            k = 'rawstr'
        if k in ('ws', 'lcomment'):
            continue
        t = m.group(0)
        if k in ('rawstr', 'str', 'char', 'num'):
            out.append(Tok('lit', t))
        elif k == 'lifetime':
            out.append(Tok('lifetime', t))
        elif k == 'ident':
            out.append(Tok('ident', t))
        elif k in ('open', 'close'):
            out.append(Tok(k, t))
        else:
            out.append(Tok('punct', t, joint=(t in '<>' and pos < n and text[pos] == t)))
    return out

def tree(tokens):
    stack = [[]]
    delims = []
    for t in tokens:
        if t.kind == 'open':
            stack.append([])
            delims.append(t.text)
        elif t.kind == 'close':
            if not delims or _CLOSE[delims[-1]] != t.text:
                raise LexError('unbalanced %r' % t.text)
            items = stack.pop()
            stack[-1].append(Group(delims.pop(), items))
        else:
            stack[-1].append(t)
    if delims:
        raise LexError('unclosed %r' % delims[-1])
    return stack[0]

def parse(text):
    return tree(lex(text))

def render(items, sep=' '):
    """Flat one-line rendering of a token-tree list (`<<` / `>>` stay adjacent exactly where rustc printed them so)."""
    out = []
    for idx, it in enumerate(items):
        if isinstance(it, Group):
            out.append(it.delim + ' ' + render(it.items) + ' ' + _CLOSE[it.delim])
            out.append(sep)
        else:
            out.append(it.text)
            nxt = items[idx + 1] if idx + 1 < len(items) else None
            if it.kind == 'punct' and it.joint and nxt is not None and not isinstance(nxt, Group) and nxt.text == it.text:
                continue
            out.append(sep)
    if out and out[-1] == sep:
        out.pop()
    return ''.join(out)

def render_pretty(items, indent=0):
    """Multi-line rendering: a newline after ';' and ',' at brace level and around brace groups."""
    lines = []
    cur = []
    pad = '    ' * indent
    glue = [False]
    def flush():
        if cur:
            lines.append(pad + ' '.join(cur))
            del cur[:]
        glue[0] = False
    def push(text):
        if glue[0] and cur:
            cur[-1] = cur[-1] + text
        else:
            cur.append(text)
        glue[0] = False
    for idx, it in enumerate(items):
        if isinstance(it, Group):
            if it.delim == '{':
                inner = render_pretty(it.items, indent + 1)
                if not inner.strip():
                    push('{ }')
                else:
                    push('{')
                    flush()
                    lines.append(inner)
                    push('}')
                    # keep `} else {`, `};`, `},` on the same line: do not flush here
            else:
                push(it.delim + ' ' + render(it.items) + ' ' + _CLOSE[it.delim])
        else:
            push(it.text)
            nxt = items[idx + 1] if idx + 1 < len(items) else None
            if it.kind == 'punct' and it.joint and nxt is not None and not isinstance(nxt, Group) and nxt.text == it.text:
                glue[0] = True
            elif it.kind == 'punct' and it.text in (';', ','):
                flush()
    flush()
    return '\n'.join(lines)

# ---------------------------------------------------------------------------------------
# items

class Item:
    """A top-level item or an impl member."""
    def __init__(self, attrs, toks):
        self.attrs = attrs            # list of Group('[') contents lists (each attr = token list inside #[..])
        self.toks = toks              # tokens of the item without attributes
        self.kind = None              # struct | enum | impl | fn | const | type | static | use | other
        self.name = None
    def __repr__(self):
        return 'Item(%s %s)' % (self.kind, self.name)

def _split_attrs(items, i):
    attrs = []
    while i + 1 < len(items) and items[i].is_p('#') and isinstance(items[i + 1], Group) and items[i + 1].delim == '[':
        attrs.append(items[i + 1].items)
        i += 2
    return attrs, i

_VIS_KW = ('pub',)
_FN_MODS = ('const', 'unsafe', 'async', 'extern')

def split_items(items):
    """Split a token-tree list into items (top level of a file, or the body of an impl)."""
    out = []
    i = 0
    n = len(items)
    while i < n:
        attrs, i = _split_attrs(items, i)
        if i >= n:
            break
        start = i
        # visibility
        j = i
        if items[j].is_i('pub'):
            j += 1
            if j < n and isinstance(items[j], Group) and items[j].delim == '(':
                j += 1
        # find the keyword
        k = j
        while (k + 1 < n and items[k].is_i() and items[k].text in _FN_MODS
               and items[k + 1].is_i() and (items[k + 1].text == 'fn' or items[k + 1].text in _FN_MODS)):
            k += 1
        kw = items[k].text if k < n and items[k].is_i() else None
        it = Item(attrs, None)
        if kw in ('struct', 'enum', 'union'):
            it.kind = kw
            it.name = items[k + 1].text
            # ends at first '{' group or ';' at this level
            e = k + 1
            while e < n and not (isinstance(items[e], Group) and items[e].delim == '{') and not items[e].is_p(';'):
                e += 1
            # tuple struct: `struct X(..);`
            end = e + 1
        elif kw == 'impl':
            it.kind = 'impl'
            e = k + 1
            while e < n and not (isinstance(items[e], Group) and items[e].delim == '{'):
                e += 1
            end = e + 1
        elif kw == 'fn':
            it.kind = 'fn'
            it.name = items[k + 1].text
            e = k + 1
            while e < n and not (isinstance(items[e], Group) and items[e].delim == '{') and not items[e].is_p(';'):
                e += 1
            end = e + 1
        elif kw in ('const', 'static', 'type', 'use', 'mod', 'trait'):
            it.kind = kw
            nm = k + 1
            if nm < n and items[nm].is_i('mut'):
                nm += 1
            it.name = items[nm].text if nm < n and items[nm].text else None
            e = k + 1
            if kw in ('mod', 'trait'):
                while e < n and not (isinstance(items[e], Group) and items[e].delim == '{') and not items[e].is_p(';'):
                    e += 1
            else:
                while e < n and not items[e].is_p(';'):
                    e += 1
            end = e + 1
        else:
            raise LexError('cannot split item at: ' + render(items[start:start + 12]))
        if end > n:
            raise LexError('unterminated item: ' + render(items[start:start + 12]))
        it.toks = items[start:end]
        out.append(it)
        i = end
    return out

def split_top(items, sep=','):
    """Split a token list at `sep` punctuation, respecting <...> nesting (groups are already nested)."""
    parts = []
    cur = []
    depth = 0
    for idx, it in enumerate(items):
        if it.is_p('<'):
            depth += 1
        elif it.is_p('>'):
            if depth > 0:
                depth -= 1
        elif it.is_p('->') or it.is_p('=>'):
            pass
        if depth == 0 and it.is_p(sep):
            parts.append(cur)
            cur = []
        else:
            cur.append(it)
    if cur:
        parts.append(cur)
    return parts

class ImplHeader:
    def __init__(self):
        self.generics = []     # tokens inside impl<...> (without the brackets)
        self.trait = None      # token list or None
        self.self_ty = []      # token list
        self.where = []        # token list after `where` (without the keyword)
        self.body = None       # Group

def parse_impl(item):
    toks = item.toks
    assert toks[0].is_i('impl')
    h = ImplHeader()
    i = 1
    if toks[i].is_p('<'):
        depth = 0
        j = i
        while True:
            if toks[j].is_p('<'):
                depth += 1
            elif toks[j].is_p('>'):
                depth -= 1
                if depth == 0:
                    break
            j += 1
        h.generics = toks[i + 1:j]
        i = j + 1
    body_idx = len(toks) - 1
    h.body = toks[body_idx]
    head = toks[i:body_idx]
    # where clause
    depth = 0
    w = None
    f = None
    for idx, t in enumerate(head):
        if t.is_p('<'):
            depth += 1
        elif t.is_p('>'):
            depth -= 1
        elif depth == 0 and t.is_i('where') and w is None:
            w = idx
        elif depth == 0 and t.is_i('for') and f is None and w is None:
            f = idx
    if w is not None:
        h.where = head[w + 1:]
        head = head[:w]
    if f is not None:
        h.trait = head[:f]
        h.self_ty = head[f + 1:]
    else:
        h.self_ty = head
    return h

def path_last_ident(toks):
    """Last path segment identifier of a type path, ignoring generic arguments: `:: strum :: Foo < T >` -> Foo."""
    depth = 0
    last = None
    for t in toks:
        if t.is_p('<'):
            depth += 1
        elif t.is_p('>'):
            depth -= 1
        elif depth == 0 and t.is_i():
            last = t.text
    return last

class FnSig:
    def __init__(self):
        self.prefix = []     # vis + modifiers tokens before `fn`
        self.name = None
        self.generics = []   # tokens inside <...>
        self.params = None   # Group '('
        self.ret = None      # token list after '->' (None if absent)
        self.where = []
        self.body = None     # Group '{'

def parse_fn(item):
    toks = item.toks
    s = FnSig()
    i = 0
    while not toks[i].is_i('fn'):
        i += 1
    s.prefix = toks[:i]
    s.name = toks[i + 1].text
    i += 2
    if toks[i].is_p('<'):
        depth = 0
        j = i
        while True:
            if toks[j].is_p('<'):
                depth += 1
            elif toks[j].is_p('>'):
                depth -= 1
                if depth == 0:
                    break
            elif toks[j].is_p('->'):
                pass
            j += 1
        s.generics = toks[i + 1:j]
        i = j + 1
    assert isinstance(toks[i], Group) and toks[i].delim == '(', render(toks[:i + 1])
    s.params = toks[i]
    i += 1
    rest = toks[i:-1]
    s.body = toks[-1]
    if not (isinstance(s.body, Group) and s.body.delim == '{'):
        raise LexError('fn without body: ' + render(toks[:6]))
    if rest and rest[0].is_p('->'):
        rest = rest[1:]
        w = None
        depth = 0
        for idx, t in enumerate(rest):
            if t.is_p('<'):
                depth += 1
            elif t.is_p('>'):
                depth -= 1
            elif depth == 0 and t.is_i('where'):
                w = idx
                break
        if w is not None:
            s.ret = rest[:w]
            s.where = rest[w + 1:]
        else:
            s.ret = rest
    elif rest and rest[0].is_i('where'):
        s.where = rest[1:]
    return s

def walk(items, fn):
    """Depth-first rewrite: fn(list) -> list is applied to every nested token list (post-order)."""
    out = []
    for it in items:
        if isinstance(it, Group):
            out.append(Group(it.delim, walk(it.items, fn)))
        else:
            out.append(it)
    return fn(out)

def find_seq(items, pattern, start=0):
    """Index of the first occurrence of a flat token-text pattern (list of texts; None = any single token)."""
    m = len(pattern)
    for i in range(start, len(items) - m + 1):
        ok = True
        for k, p in enumerate(pattern):
            it = items[i + k]
            if p is None:
                continue
            if isinstance(it, Group) or it.text != p:
                ok = False
                break
        if ok:
            return i
    return -1
