"""Contracts for the expansion of EnumIter (+ EnumCount): properties C04, C05 (and the COUNT/iter part of C08).

Ghost view of `EIter` (fields idx, back_idx): the half-open interval [lo, hi) of positions of the fixed
list VAR of enabled variants (declaration order, defaulted payloads) that are still to be yielded.
`var_ok(i, v)` says "v is the i-th element of VAR".  Every public operation is specified over the whole
view and preserves wf, so by induction over the call history the object refines a double-ended,
exact-size, fused iterator over VAR - for every history and every n, with no depth bound.
"""
from .assemble import Contract
from . import vspec

def gen(prog, mode):
    """mode: 'C05' (full iterator contract, no precondition on n) or 'C04' (content; nth only as used by next)."""
    E = prog.name
    It = E + 'Iter'
    en = prog.enabled()
    N = len(en)
    g_decl = prog.generics_decl
    g_use = prog.generics_use
    where = prog.where_clause
    tp = vspec.ty_use(prog)

    cases = [('i == %d' % i, vspec.variant_pred(prog, v, 'v')) for i, v in enumerate(en)]
    pre = []
    pre.append('pub open spec fn vx_n() -> int { %d }' % N)
    pre.append('pub open spec fn var_ok%s(i: int, v: %s) -> bool %s {\n    %s\n}' % (
        g_decl, tp, where, vspec.if_chain(cases, 'false')))
    pre.append('''impl%s %s%s %s {
    pub closed spec fn wf(&self) -> bool { self.idx <= vx_n() && self.back_idx <= vx_n() && (self.idx + self.back_idx <= vx_n() || self.idx == vx_n() || self.back_idx == vx_n()) }
    pub closed spec fn lo(&self) -> int { self.idx as int }
    pub closed spec fn hi(&self) -> int { if self.idx + self.back_idx >= vx_n() { self.idx as int } else { vx_n() - self.back_idx } }
    pub open spec fn remaining(&self) -> int { self.hi() - self.lo() }
}''' % (g_decl, It, g_use, where))

    front = lambda n: [
        ('wf', 'final(self).wf()'),
        ('item', '%s < old(self).remaining() ==> r is Some && var_ok(old(self).lo() + %s, r->Some_0) && final(self).lo() == old(self).lo() + %s + 1 && final(self).hi() == old(self).hi()' % (n, n, n)),
        ('exhausted', '%s >= old(self).remaining() ==> r is None && final(self).remaining() == 0' % n),
    ]
    plan = {}
    plan[(It, None, 'get')] = Contract(
        ensures=[('in_range', 'idx < vx_n() ==> r is Some && var_ok(idx as int, r->Some_0)'),
                 ('out_of_range', 'idx >= vx_n() ==> r is None')], props=['C04', 'C05'], params=['idx'])
    plan[(E, 'IntoEnumIterator', 'iter')] = Contract(
        ensures=[('fresh', 'r.wf() && r.lo() == 0 && r.hi() == vx_n()')], props=['C04', 'C05'])
    nth_req = [('wf', 'old(self).wf()')]
    if mode == 'C04':
        nth_req.append(('as_called_by_next', 'n == 0'))
    plan[(It, 'Iterator', 'nth')] = Contract(requires=nth_req, ensures=front('n'), props=['C04', 'C05'], params=['n'])
    plan[(It, 'Iterator', 'next')] = Contract(requires=[('wf', 'old(self).wf()')], ensures=front('0'), props=['C04', 'C05'])
    plan[(It, 'DoubleEndedIterator', 'next_back')] = Contract(
        requires=[('wf', 'old(self).wf()')],
        ensures=[('wf', 'final(self).wf()'),
                 ('item', '0 < old(self).remaining() ==> r is Some && var_ok(old(self).hi() - 1, r->Some_0) && final(self).hi() == old(self).hi() - 1 && final(self).lo() == old(self).lo()'),
                 ('exhausted', '0 >= old(self).remaining() ==> r is None && final(self).remaining() == 0')],
        props=['C04', 'C05'])
    # nth_back is std's default method on the unchanged tree; if a template overrides it, this is its contract
    plan[(It, 'DoubleEndedIterator', 'nth_back')] = Contract(
        requires=[('wf', 'old(self).wf()')],
        ensures=[('wf', 'final(self).wf()'),
                 ('item', 'n < old(self).remaining() ==> r is Some && var_ok(old(self).hi() - 1 - n, r->Some_0) && final(self).hi() == old(self).hi() - 1 - n && final(self).lo() == old(self).lo()'),
                 ('exhausted', 'n >= old(self).remaining() ==> r is None && final(self).remaining() == 0')],
        props=['C04', 'C05', 'C08'], optional=True, params=['n'])
    plan[(It, 'Iterator', 'size_hint')] = Contract(
        requires=[('wf', 'self.wf()')],
        ensures=[('exact', 'r.0 == self.remaining() && r.1 == Some(r.0)')], props=['C05', 'C04'])
    plan[(It, 'ExactSizeIterator', 'len')] = Contract(
        requires=[('wf', 'self.wf()')],
        ensures=[('exact', 'r == self.remaining()')], props=['C05', 'C04'])
    plan[(It, 'Clone', 'clone')] = Contract(
        requires=[('wf', 'self.wf()')],
        ensures=[('same_view', 'r.wf() && r.lo() == self.lo() && r.hi() == self.hi()')], props=['C05'])
    consts = {}
    consts[(E, 'EnumCount', 'COUNT')] = Contract(ensures=[('count', '%s::%sCOUNT == vx_n()' % (E, (g_use + '::') if g_use else ''))],
                                                 props=['C04', 'C08'])

    # reachability witness: every precondition above is satisfiable, and the view of a fresh iterator
    # really is the whole list (non-vacuity of wf/lo/hi)
    lemmas = []
    lemmas.append('''// @@FN vx_reach_iter
fn vx_reach_iter%s() %s
{
    let mut it = %s::iter();
    assert(it.remaining() == vx_n());
    let n = it.len();
    assert(n == vx_n());
    let a = it.next();
    let b = it.next_back();
    let c = it.clone();
    let h = it.size_hint();
    assert(vx_n() >= 2 ==> a is Some && b is Some && var_ok(0, a->Some_0) && var_ok(vx_n() - 1, b->Some_0));
    assert(vx_n() == 0 ==> a is None && b is None);
    assert(h.0 == c.remaining());
}
// @@END vx_reach_iter''' % (g_decl, where, vspec.ty_path(prog)))
    return '\n'.join(pre), plan, consts, '\n'.join(lemmas)


# ---------------------------------------------------------------------------------------
# Kani twin on the real derive output (no rewriting): same contract, loop-free, full 64-bit domain.

OPS = ['nth', 'next', 'next_back', 'nth_back', 'size_hint', 'len', 'clone', 'iter', 'get']

def kani_module(prog):
    E = prog.name
    It = E + 'Iter'
    en = prog.enabled()
    N = len(en)
    inst = vspec.rust_inst(prog)
    arms = ''.join('            %d => Some(%s),\n' % (i, vspec.rust_default_value(prog, v)) for i, v in enumerate(en))
    return '''
#[cfg(kani)]
mod vx_proofs {
    use super::*;
    use core::marker::PhantomData;
    const N: usize = %(N)d;
    type It = %(It)s%(inst)s;
    type En = %(E)s%(inst)s;
    // the fixed list VAR of enabled variants, printed from the declaration model (oracle)
    fn var(i: usize) -> Option<En> {
        match i {
%(arms)s            _ => None,
        }
    }
    fn eqv(r: &Option<En>, i: usize) -> bool { %(eqv)s }
    fn wf(it: &It) -> bool { let (a, b) = (it.idx as usize, it.back_idx as usize); a <= N && b <= N && (a + b <= N || a == N || b == N) }
    fn lo(it: &It) -> usize { it.idx as usize }
    fn hi(it: &It) -> usize { let (a, b) = (it.idx as usize, it.back_idx as usize); if a + b >= N { a } else { N - b } }
    fn any_wf() -> It {
        let it = It { idx: kani::any(), back_idx: kani::any(), marker: PhantomData };
        kani::assume(wf(&it));
        it
    }
    #[kani::proof]
    fn twin_nth() {
        let mut it = any_wf();
        let n: usize = kani::any();
        let (l, h) = (lo(&it), hi(&it));
        let r = it.nth(n);
        assert!(wf(&it));
        if n < h - l { assert!(eqv(&r, l + n)); assert!(lo(&it) == l + n + 1 && hi(&it) == h); }
        else { assert!(r.is_none()); assert!(hi(&it) - lo(&it) == 0); }
    }
    #[kani::proof]
    fn twin_next() {
        let mut it = any_wf();
        let (l, h) = (lo(&it), hi(&it));
        let r = it.next();
        assert!(wf(&it));
        if 0 < h - l { assert!(eqv(&r, l)); assert!(lo(&it) == l + 1 && hi(&it) == h); }
        else { assert!(r.is_none()); assert!(hi(&it) - lo(&it) == 0); }
    }
    #[kani::proof]
    fn twin_next_back() {
        let mut it = any_wf();
        let (l, h) = (lo(&it), hi(&it));
        let r = it.next_back();
        assert!(wf(&it));
        if 0 < h - l { assert!(eqv(&r, h - 1)); assert!(lo(&it) == l && hi(&it) == h - 1); }
        else { assert!(r.is_none()); assert!(hi(&it) - lo(&it) == 0); }
    }
    // nth_back: std's default method (a loop over next_back) unless a template overrides it; n bounded by N + 1 for the unwinding
    #[kani::proof]
    #[kani::unwind(%(unw)d)]
    fn twin_nth_back() {
        let mut it = any_wf();
        let n: usize = kani::any();
        kani::assume(n <= N + 1);
        let (l, h) = (lo(&it), hi(&it));
        let r = it.nth_back(n);
        assert!(wf(&it));
        if n < h - l { assert!(eqv(&r, h - 1 - n)); assert!(lo(&it) == l && hi(&it) == h - 1 - n); }
        else { assert!(r.is_none()); assert!(hi(&it) - lo(&it) == 0); }
    }
    #[kani::proof]
    fn twin_size_hint() {
        let it = any_wf();
        let r = it.size_hint();
        assert!(r.0 == hi(&it) - lo(&it) && r.1 == Some(r.0));
    }
    #[kani::proof]
    fn twin_len() {
        let it = any_wf();
        assert!(it.len() == hi(&it) - lo(&it));
    }
    #[kani::proof]
    fn twin_clone() {
        let it = any_wf();
        let c = it.clone();
        assert!(wf(&c) && lo(&c) == lo(&it) && hi(&c) == hi(&it));
    }
    #[kani::proof]
    fn twin_iter() {
        let it = En::iter();
        assert!(wf(&it) && lo(&it) == 0 && hi(&it) == N);
        assert!(<En as strum::EnumCount>::COUNT == N);
    }
    #[kani::proof]
    fn twin_get() {
        let it = any_wf();
        let i: usize = kani::any();
        assert!(eqv(&it.get(i), i));
    }
}
''' % dict(N=N, It=It, E=E, inst=inst, arms=arms, eqv=('*r == var(i)' if prog.variants else 'r.is_none()'), unw=N + 4)


BB_BACK_SMALL = '''else { let n: usize = kani::any(); kani::assume(n <= N + 1); let r = it.nth_back(n);
            if n < rem { assert!(eqv(&r, *hi - 1 - n)); *hi -= n + 1; } else { assert!(r.is_none()); *lo = *hi; } }'''
BB_BACK_LARGE = '''else { let r = it.next_back(); if rem > 0 { assert!(eqv(&r, *hi - 1)); *hi -= 1; } else { assert!(r.is_none()); } }'''

BB_TEMPLATE = '''
#[cfg(kani)]
mod vx_proofs {
    use super::*;
    const N: usize = %(N)d;
    type En = %(E)s%(inst)s;
    type It = <En as strum::IntoEnumIterator>::Iterator;
    fn var(i: usize) -> Option<En> {
        match i {
%(arms)s            _ => None,
        }
    }
    fn eqv(r: &Option<En>, i: usize) -> bool { %(eqv)s }
    fn step(it: &mut It, lo: &mut usize, hi: &mut usize) {
        let op: u8 = kani::any();
        let rem = *hi - *lo;
        if op == 0 { let r = it.next(); if rem > 0 { assert!(eqv(&r, *lo)); *lo += 1; } else { assert!(r.is_none()); } }
        else if op == 1 { let r = it.next_back(); if rem > 0 { assert!(eqv(&r, *hi - 1)); *hi -= 1; } else { assert!(r.is_none()); } }
        else if op == 2 { let n: usize = kani::any(); let r = it.nth(n);
            if n < rem { assert!(eqv(&r, *lo + n)); *lo += n + 1; } else { assert!(r.is_none()); *lo = *hi; } }
        %(back)s
        assert!(it.len() == *hi - *lo);
        let sh = it.size_hint();
        assert!(sh.0 == *hi - *lo && sh.1 == Some(*hi - *lo));
    }
    #[kani::proof]
    #[kani::unwind(%(unw)d)]
    fn bb_history() {
        let mut it = En::iter();
        assert!(<En as strum::EnumCount>::COUNT == N && it.len() == N);
        let (mut lo, mut hi) = (0usize, N);
%(steps)s        let c = it.clone();
        assert!(c.len() == hi - lo);
    }
}
'''

def kani_blackbox(prog):
    """Twins that use the public API only (iter / next / next_back / nth / nth_back / len / size_hint / clone): a symbolic history of
    four operations with symbolic arguments on a fresh iterator is compared, step by step, with the interval model [lo, hi) over the
    declaration's variant list.  Used when the generated iterator no longer has the idx / back_idx fields the state-based twins are
    written over.  Bounded: histories of length 4 (every state is reachable in two jumps); nth_back arguments <= N + 1 (N <= 16);
    for larger enums histories of length 3 with next_back instead of nth_back."""
    en = prog.enabled()
    N = len(en)
    arms = ''.join('            %d => Some(%s),\n' % (i, vspec.rust_default_value(prog, v)) for i, v in enumerate(en))
    small = N <= 16
    return BB_TEMPLATE % dict(N=N, E=prog.name, inst=vspec.rust_inst(prog), arms=arms, eqv=('*r == var(i)' if prog.variants else 'r.is_none()'),
                              back=BB_BACK_SMALL if small else BB_BACK_LARGE, unw=(N + 4 if small else 4),
                              steps='        step(&mut it, &mut lo, &mut hi);\n' * (4 if small else 3))
