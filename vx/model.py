"""Declaration model D_p of a corpus program (one enum + the strum attributes on it).

Both the Rust source handed to rustc (with every #[strum..] attribute) and the
attribute-free re-emission for Verus (rule R8) are printed from this model, and all
contracts are generated from it (never from strum_macros' data structures).
"""
from dataclasses import dataclass, field
from typing import List, Optional, Tuple

def rs_str(s):
    """Rust string literal for a python str."""
    out = ['"']
    for ch in s:
        o = ord(ch)
        if ch == '"':
            out.append('\\"')
        elif ch == '\\':
            out.append('\\\\')
        elif ch == '\n':
            out.append('\\n')
        elif ch == '\t':
            out.append('\\t')
        elif ch == '\r':
            out.append('\\r')
        elif o < 0x20 or o == 0x7f:
            out.append('\\u{%x}' % o)
        elif o > 0x7e:
            out.append('\\u{%x}' % o)
        else:
            out.append(ch)
    out.append('"')
    return ''.join(out)

# payload palette: type -> (verus spec expression of Default::default(), kani-friendly)
PALETTE = {
    'u8': '0u8', 'i32': '0i32', 'bool': 'false', 'usize': '0usize', 'u16': '0u16', 'i64': '0i64',
    '()': '()',
    'Tag': 'Tag(7u8)',
}

@dataclass
class Field:
    ty: str
    name: Optional[str] = None          # None for tuple fields
    default_with: Optional[str] = None  # #[strum(default_with = "f")] on a named field

@dataclass
class Variant:
    ident: str
    kind: str = 'unit'                  # unit | tuple | named
    fields: List[Field] = field(default_factory=list)
    disc: Optional[str] = None          # explicit discriminant expression text
    serialize: List[str] = field(default_factory=list)
    to_string: Optional[str] = None
    disabled: bool = False
    default: bool = False
    default_with: Optional[str] = None  # variant-level (tuple variants)
    aci: Optional[bool] = None          # ascii_case_insensitive [= bool]
    aci_bare: bool = False              # written as bare `ascii_case_insensitive`
    transparent: bool = False
    message: Optional[str] = None
    detailed_message: Optional[str] = None
    docs: List[str] = field(default_factory=list)      # each = text of one #[doc = "..."] line
    props: List[List[Tuple[str, object]]] = field(default_factory=list)  # groups of (key, python value)
    attr_groups: Optional[List[List[str]]] = None      # explicit split of strum items into attributes
    extra_attrs: List[str] = field(default_factory=list)  # raw attributes (e.g. strum_discriminants(..))

    def strum_items(self):
        """(name, text) items in source order: serialize.., to_string, then flags."""
        items = []
        for s in self.serialize:
            items.append('serialize = ' + rs_str(s))
        if self.to_string is not None:
            items.append('to_string = ' + rs_str(self.to_string))
        if self.disabled:
            items.append('disabled')
        if self.default:
            items.append('default')
        if self.default_with is not None:
            items.append('default_with = ' + rs_str(self.default_with))
        if self.aci is not None:
            if self.aci and self.aci_bare:
                items.append('ascii_case_insensitive')
            else:
                items.append('ascii_case_insensitive = ' + ('true' if self.aci else 'false'))
        if self.transparent:
            items.append('transparent')
        if self.message is not None:
            items.append('message = ' + rs_str(self.message))
        if self.detailed_message is not None:
            items.append('detailed_message = ' + rs_str(self.detailed_message))
        for g in self.props:
            inner = ', '.join('%s = %s' % (k, prop_lit(v)) for k, v in g)
            items.append('props(' + inner + ')')
        return items

def prop_lit(v):
    if isinstance(v, bool):
        return 'true' if v else 'false'
    if isinstance(v, int):
        return str(v)
    return rs_str(v)

@dataclass
class Program:
    name: str
    variants: List[Variant]
    derives: List[str] = field(default_factory=list)        # strum derives
    std_derives: List[str] = field(default_factory=lambda: ['Debug', 'PartialEq'])
    generics_decl: str = ''             # e.g. '<T: Default>'
    generics_use: str = ''              # e.g. '<T>'
    where_clause: str = ''
    type_params: List[str] = field(default_factory=list)    # ['T'] names of type params
    repr: Optional[str] = None
    serialize_all: Optional[str] = None
    aci: bool = False
    prefix: Optional[str] = None
    use_phf: bool = False
    parse_err_ty: Optional[str] = None
    parse_err_fn: Optional[str] = None
    const_into_str: bool = False
    disc_attrs: List[str] = field(default_factory=list)     # raw strum_discriminants(...) items
    disc_name: Optional[str] = None
    vis: str = 'pub'
    aux_rust: str = ''                  # auxiliary items for rustc (default_with fns, parse_err fn, ...)
    aux_verus: str = ''                 # the same items for Verus (with contracts)
    enum_attr_groups: Optional[List[List[str]]] = None
    tags: List[str] = field(default_factory=list)           # free-form labels (corpus axes)
    inner: Optional['Program'] = None   # a second derived enum of the same group (nested inside a transparent variant)
    attr_layout: str = 'joined'         # joined: one #[strum(a, b)]; split: one attribute per item; split_rev: the same in reverse order
    kani_rust: str = ''                 # #[cfg(kani)] child module text (harnesses on the real derives)
    extra_rust: str = ''                # rustc-level obligations (type-level clauses) placed after the enum

    def name_mod(self):
        import re
        return re.match(r'^(P\d{3,5})', self.name).group(1).lower()

    def module_source(self):
        return '\n'.join([
            '#[allow(unused_imports)] use strum::{IntoEnumIterator, EnumCount, VariantNames, VariantArray, EnumMessage, EnumProperty, IntoDiscriminant};',
            '#[allow(unused_imports)] use core::str::FromStr;',
            '#[allow(unused_imports)] use core::convert::TryFrom;',
            '#[allow(unused_imports)] use crate::{Tag, Cap, PErr, perr, perr_calls, dw_u8, dw_i32, dw_tag};',
            self.aux_rust, (self.inner.rust_source() if self.inner else ''), self.rust_source(), self.extra_rust, self.kani_rust, ''])

    def enabled(self):
        return [v for v in self.variants if not v.disabled]

    def enum_strum_items(self):
        items = []
        if self.serialize_all is not None:
            items.append('serialize_all = ' + rs_str(self.serialize_all))
        if self.aci:
            items.append('ascii_case_insensitive')
        if self.prefix is not None:
            items.append('prefix = ' + rs_str(self.prefix))
        if self.use_phf:
            items.append('use_phf')
        if self.parse_err_ty is not None:
            items.append('parse_err_ty = ' + self.parse_err_ty)
        if self.parse_err_fn is not None:
            items.append('parse_err_fn = ' + self.parse_err_fn)
        if self.const_into_str:
            items.append('const_into_str')
        return items

    # ---- printers ---------------------------------------------------------------------
    def _variant_body(self, v, with_attrs):
        s = v.ident
        if v.kind == 'tuple':
            s += '(' + ', '.join(f.ty for f in v.fields) + ')'
        elif v.kind == 'named':
            parts = []
            for f in v.fields:
                a = ''
                if with_attrs and f.default_with is not None:
                    a = '#[strum(default_with = %s)] ' % rs_str(f.default_with)
                parts.append('%s%s: %s' % (a, f.name, f.ty))
            s += ' { ' + ', '.join(parts) + ' }'
        if v.disc is not None:
            s += ' = ' + v.disc
        return s

    def _layout(self, items, keep_order=False):
        if not items:
            return []
        if self.attr_layout == 'joined':
            return [items]
        if self.attr_layout == 'split':
            return [[i] for i in items]
        # split_rev: flags first, naming items keep their relative order (the order of serialize literals is part of the program)
        naming = [i for i in items if i.startswith(('serialize', 'to_string'))]
        other = [i for i in items if not i.startswith(('serialize', 'to_string'))]
        return [[i] for i in reversed(other)] + [naming] if naming else [[i] for i in reversed(other)]

    def rust_source(self):
        """The program as compiled by rustc: derives + every strum attribute."""
        out = []
        der = ['strum::' + d for d in self.derives] + list(self.std_derives)
        if der:
            out.append('#[derive(%s)]' % ', '.join(der))
        if self.repr:
            out.append('#[repr(%s)]' % self.repr)
        groups = self.enum_attr_groups
        if groups is None:
            groups = self._layout(self.enum_strum_items(), keep_order=True)
        for g in groups:
            out.append('#[strum(%s)]' % ', '.join(g))
        for d in self.disc_attrs:
            out.append('#[strum_discriminants(%s)]' % d)
        out.append('%s enum %s%s %s {' % (self.vis, self.name, self.generics_decl, self.where_clause))
        for v in self.variants:
            for d in v.docs:
                out.append('    #[doc = %s]' % rs_str(d))
            groups = v.attr_groups
            if groups is None:
                groups = self._layout(v.strum_items())
            for g in groups:
                out.append('    #[strum(%s)]' % ', '.join(g))
            for a in v.extra_attrs:
                out.append('    #[%s]' % a)
            out.append('    ' + self._variant_body(v, True) + ',')
        out.append('}')
        return '\n'.join(out)

    def verus_enum(self):
        """R8: the enum re-emitted without helper attributes (repr and discriminants kept)."""
        out = []
        if self.repr:
            out.append('#[repr(%s)]' % self.repr)
        out.append('pub enum %s%s %s {' % (self.name, self.generics_decl, self.where_clause))
        for v in self.variants:
            out.append('    ' + self._variant_body(v, False) + ',')
        out.append('}')
        return '\n'.join(out)

    def has_payload(self):
        return any(v.kind != 'unit' for v in self.variants)

    def shadow_enum(self, name=None):
        """Field-less enum with the same variant list, repr and discriminant expressions."""
        name = name or (self.name + 'Shadow')
        out = []
        if self.repr:
            out.append('#[repr(%s)]' % self.repr)
        out.append('pub enum %s {' % name)
        for v in self.variants:
            out.append('    %s%s,' % (v.ident, (' = ' + v.disc) if v.disc is not None else ''))
        out.append('}')
        return '\n'.join(out)

    def to_json(self):
        import dataclasses
        return dataclasses.asdict(self)
