"""C08: COUNT, VariantNames, VariantArray and EnumIter describe the same variant list."""
from .. import core, corpus, spec_iter, spec_print, spec_misc, vspec, oracle
from .common import Unit
from ..model import rs_str

class AgreeUnit(Unit):
    rule = ('enumerated: field-less enums (all four derives) and payload/generic enums (COUNT, iter, VariantNames) of 1..8 variants x explicit discriminants x '
            'naming attributes / serialize_all / prefix x disabled placement + 255 / 256 variants (quick: 11 programs; thorough: + 30 systematic)')
    assumptions = (
        'Iterator::count() is std\'s default method on top of the verified next(); the lemma shows len() == COUNT and the i-th next() item',
        'rewrites R1, R3, R4 (VariantNames / VariantArray slice consts hoisted to module-level exec consts), R7',
    )
    def corpus(self, ctx):
        return corpus.corpus_agree(ctx.tier, ctx.seed)
    def skip_verus(self, ctx, prog):
        if not prog.variants:
            return 'enum without variants'
    def gen(self, ctx, prog):
        pre, plan, consts, lem = spec_iter.gen(prog, 'C04')
        for c in list(plan.values()) + list(consts.values()):
            c.props = list(c.props) + ['C08']
        pre_l, lem_l = [pre], []
        spec_print.gen_one(prog, 'C08', plan, consts, pre_l, lem_l)
        if 'VariantArray' in prog.derives:
            spec_misc.gen_array(prog, consts, lem_l)
        E = prog.name
        en = prog.enabled()
        nd = len(prog.variants)
        tp = vspec.ty_path(prog)
        L = []
        L.append('    let names = %s_VariantNames_VARIANTS;' % E)
        L.append('    assert(names@.len() == %d);' % nd)
        if 'VariantArray' in prog.derives:
            L.append('    let arr = %s_VariantArray_VARIANTS;' % E)
            L.append('    assert(arr@.len() == %d);' % nd)
        L.append('    let mut it = %s::iter();' % tp)
        L.append('    let n = it.len();')
        L.append('    assert(n == %s::COUNT && n == %d);' % (tp, len(en)))
        if len(en) == nd and nd <= 40:   # stepping through the iterator item by item is kept for small enums; the contracts carry the claim for large ones
            for i, v in enumerate(prog.variants):
                L.append('    let x%d = it.next();' % i)
                L.append('    assert(x%d is Some && var_ok(%d, x%d->Some_0));' % (i, i, i))
                if 'VariantArray' in prog.derives:
                    L.append('    assert(var_ok(%d, arr@[%d]));' % (i, i))
                names = oracle.canonical_names(prog, v)
                L.append('    assert(%s);' % ' || '.join('names@[%d] == %s' % (i, rs_str(n)) for n in names))
            L.append('    let xe = it.next();')
            L.append('    assert(xe is None);')
        lem_l.append('// @@FN vx_agree\nfn vx_agree%s() %s\n{\n%s\n}\n// @@END vx_agree' % (prog.generics_decl, prog.where_clause, '\n'.join(L)))
        return '\n'.join(pre_l), plan, consts, lem + '\n' + '\n'.join(lem_l)
    def candidate_replay(self, ctx, prog, o):
        from .. import lreplay
        return lreplay.printers(prog, o.fn)
    def verus_text(self, ctx, prog, pre, asm, lemmas):
        der = '#[derive(Clone, Copy)]\n' if 'VariantArray' in prog.derives else ''
        return '\n'.join([prog.aux_verus, der + prog.verus_enum(), pre, asm.text, lemmas])

def run(ctx):
    return AgreeUnit().run(ctx)
