"""C07: each serialize_all style renames identifiers to exactly that documented case.

(a) proof, all strings: `impl FromStr for CaseStyle` is cut verbatim out of strum_macros/src/helpers/case_style.rs (E2) and verified
    against: every accepted style string maps to its style, every other string is rejected.
(b) bounded, exhaustive: the identifier -> literal conversion runs inside heck at expansion time, outside any installed deductive
    verifier.  What is checked is its result: for every style string, enums whose variants are ALL identifiers up to a length bound
    (plus a dictionary) derive VariantNames; the literal the real macro produced must equal the oracle's conversion (Verus obligation
    on the generated const).  Dictionary enums also derive Display/AsRefStr/IntoStaticStr/EnumString and reuse the C01/C03 contracts,
    which shows every derive uses the same renamed identifier and explicit spellings are never re-cased.
"""
import os
from .. import core, corpus, spec_parse, spec_print, spec_misc, run_kani, vspec, oracle, rtok, assemble, expand
from ..assemble import Contract
from .common import Unit
from ..model import rs_str, Program

class CaseStyleSource(Program):
    """pseudo program: the CaseStyle enum and its FromStr impl, taken from the repository source."""
    pass

def extract_case_style():
    path = os.path.join(expand.REPO, 'strum_macros', 'src', 'helpers', 'case_style.rs')
    toks = rtok.parse(open(path).read())
    items = rtok.split_items(toks)
    enum = [it for it in items if it.kind == 'enum' and it.name == 'CaseStyle']
    impl = []
    for it in items:
        if it.kind == 'impl':
            h = rtok.parse_impl(it)
            if h.trait is not None and rtok.path_last_ident(h.trait) == 'FromStr' and rtok.path_last_ident(h.self_ty) == 'CaseStyle':
                impl.append(it)
    if len(enum) != 1 or len(impl) != 1:
        raise assemble.LostAnchor('helpers/case_style.rs: enum CaseStyle / impl FromStr for CaseStyle not found')
    return enum + impl

def case_style_contract():
    ens = []
    for s, canon in oracle.STYLE_ALIASES.items():
        ens.append(('accepts_%s' % s.replace('-', '_'), '(text == %s ==> r == Ok::<CaseStyle, ()>(CaseStyle::%s))' % (rs_str(s), oracle.STYLE_VARIANT[canon])))
    none = ' && '.join('text != %s' % rs_str(s) for s in oracle.STYLE_ALIASES)
    ens.append(('rejects_everything_else', '((%s) ==> r is Err)' % none))
    ens.append(('err_only_for_unknown', '(r is Err ==> (%s))' % none))
    return Contract(ensures=ens, props=['C07', 'C20'])

class CaseUnit(Unit):
    per_file = 2
    rule = ('(a) source function CaseStyle::from_str, all strings; (b) 16 accepted style strings x EVERY identifier of length <= 3 (quick; 172) / <= 4 (thorough; 1036) with first '
            'character in {a,b,A,B} and the rest in {a,b,A,B,1,_}, in enums of 64 variants, + a 124-word dictionary of PascalCase/acronym/digit/underscore names '
            '(2 / 15 dictionary enums per style) deriving VariantNames, Display, AsRefStr, IntoStaticStr, EnumString')
    assumptions = (
        '(b) is BOUNDED: it is exhaustive for the stated identifier space and says nothing about longer identifiers; the conversion code (heck, run at expansion time) is not verified - its results are',
        'oracle: word splitting at non-alphanumerics, lower-to-upper and acronym boundaries (digits never start a word), written from the property text and heck\'s documentation',
        'Verus treats two string literals as equal iff they are the same literal',
    )
    def corpus(self, ctx):
        return corpus.corpus_case(ctx.tier, ctx.seed)
    def gen(self, ctx, prog):
        if prog.name.endswith('Id'):
            plan, consts, pre, lem = {}, {}, [], []
            spec_print.gen_one(prog, 'C07', plan, consts, pre, lem)
            return '\n'.join(pre), plan, consts, '\n'.join(lem)
        from .parse import found_err
        pre, plan, consts, lem = spec_parse.gen(prog, ctx.pid, found_err(self, prog))
        for c in plan.values():
            c.props = list(c.props) + ['C07']
        pre_l, lem_l = [pre], [lem]
        spec_print.gen_one(prog, 'C07', plan, consts, pre_l, lem_l)
        for c in list(plan.values()) + list(consts.values()):
            if 'C07' not in c.props:
                c.props = list(c.props) + ['C07']
        return '\n'.join(pre_l), plan, consts, '\n'.join(lem_l)
    def candidate_replay(self, ctx, prog, o):
        from .. import lreplay
        f = o.fn.split('::')[-1]
        return lreplay.parse(prog, o.fn) if f in ('from_str', 'try_from', 'vx_complete') else lreplay.printers(prog, o.fn)
    def kani_module(self, ctx, prog):
        if prog.name.endswith('Dw'):
            t, hs = spec_misc.kani_message(prog)
            return t
        return ''
    def kani_harnesses(self, ctx, prog):
        if prog.name.endswith('Dw') and ctx.tier == 'thorough':
            return spec_misc.kani_message(prog)[1]
        return []
    def run(self, ctx):
        # (a) the source function
        try:
            items = extract_case_style()
            pseudo = Program('P000CaseStyle', [])
            asm = assemble.assemble_program(pseudo, items, {('CaseStyle', 'FromStr', 'from_str'): case_style_contract()}, {})
            if ('CaseStyle', 'FromStr', 'from_str') not in asm.seen_keys:
                raise assemble.LostAnchor('CaseStyle::from_str not found')
            text = asm.text + '''
// @@FN vx_reach_case_style
fn vx_reach_case_style() {
    let a = CaseStyle::from_str("snake_case");
    assert(a == Ok::<CaseStyle, ()>(CaseStyle::SnakeCase));
    let b = CaseStyle::from_str("Snake_Case");
    assert(b is Err);
}
// @@END vx_reach_case_style'''
            c = asm.functions[0][2]
            m = core.VerusModule(pseudo, text, [('CaseStyle::from_str', ['C07'], [l for l, _ in c.ensures]), ('vx_reach_case_style', ['C07'], ['lemma'])], asm.stats)
            for k, v in asm.stats.items():
                ctx.stats[k] = ctx.stats.get(k, 0) + v
            ctx.functions_under_contract.add('strum_macros::helpers::case_style::<impl FromStr for CaseStyle>::from_str (verbatim source)')
            self._source_obls = core.verify_modules(ctx, [m], per_file=1, tag='src')
        except (assemble.LostAnchor, rtok.LexError) as e:
            ctx.undecided.append('lost-anchor CaseStyle::from_str: %s' % e)
            self._source_obls = []
        ctx.obligations.extend(self._source_obls)
        ctx.bounded.append('identifier conversion: exhaustive over identifiers of length <= %d over {a,b,A,B,1,_} (first char a letter) + dictionary; not a proof for all identifiers' % (3 if ctx.tier == 'quick' else 4))
        return Unit.run(self, ctx)

def run(ctx):
    return CaseUnit().run(ctx)
