"""C11: default and transparent variants capture and forward their inner value verbatim.

capture  = EnumString contracts (spec_parse) on the programs that have a default variant: the captured value is cap_of(s@) for
           the *parameter* s, for every s that hits nothing;
forward  = printer contracts (spec_print) on the programs with default / transparent variants: Display's effect on the ghost
           formatter is exactly the inner value's own effect relation on (old f, final f, r) - all formatter states at once;
           AsRefStr / IntoStaticStr return what the inner value returns;
roundtrip= Kani (bounded): E::from_str(s)?.to_string() == s for every s of length <= L that hits nothing.
"""
from .. import core, corpus, spec_parse, spec_print, run_kani, vspec, oracle
from .common import Unit
from . import parse as parse_unit, print as print_unit

def has_forward(p):
    return any((v.default or v.transparent) and not v.disabled for v in p.variants)

class ForwardUnit(Unit):
    rule = ('the EnumString corpus restricted to programs with a default variant (tuple and single-named-field form, with case-insensitive and '
            'case-sensitive neighbours) + the printer corpus restricted to programs with default / transparent variants (inner Cap, nested derived enum, '
            '&\'static str); quick: 3 + 5 programs; thorough: ~25 + 5')
    assumptions = parse_unit.ParseUnit.assumptions + print_unit.PrintUnit.assumptions + (
        'the round trip from_str(s)?.to_string() == s is bounded (Kani, all valid UTF-8 s of length <= L) and labelled so',)
    def corpus(self, ctx):
        nm = corpus.Namer()
        a = [p for p in corpus.corpus_parse(ctx.tier, ctx.seed, nm=nm) if has_forward(p)]
        for p in a:
            p.derives = ['EnumString', 'Display']
        b = [p for p in corpus.corpus_print(ctx.tier, ctx.seed, nm=nm) if has_forward(p)]
        return a + b
    def gen(self, ctx, prog):
        if 'EnumString' in prog.derives:
            parse_unit.signature_obligation(ctx, self, prog)
            pre, plan, consts, lem = spec_parse.gen(prog, ctx.pid, parse_unit.found_err(self, prog))
            pre2, plan2, consts2, lem2 = spec_print.gen(prog, ctx.pid)
            plan.update(plan2)
            consts.update(consts2)
            return pre + '\n' + pre2, plan, consts, lem + '\n' + lem2
        return spec_print.gen(prog, ctx.pid)
    def verus_text(self, ctx, prog, pre, asm, lemmas):
        inner = prog.inner.verus_enum() if prog.inner else ''
        return '\n'.join([prog.aux_verus, inner, prog.verus_enum(), pre, asm.text, lemmas])
    def candidate_replay(self, ctx, prog, o):
        from .. import lreplay
        f = o.fn.split('::')[-1]
        return lreplay.parse(prog, o.fn) if f in ('from_str', 'try_from', 'vx_complete') else lreplay.printers(prog, o.fn)
    # bounded round trip on the real code
    def kani_module(self, ctx, prog):
        if 'EnumString' not in prog.derives:
            return ''
        L = min(spec_parse.max_len(prog) + 1, 5)
        return '''
#[cfg(kani)]
mod vx_proofs {
    use super::*;
    type En = %s%s;
    const L: usize = %d;
%s
    fn hits(s: &str) -> bool {
%s
        false
    }
    #[kani::proof]
    #[kani::unwind(%d)]
    fn rt_default_captures_and_prints_input() {
        let bytes: [u8; L] = kani::any();
        let len: usize = kani::any();
        kani::assume(len <= L);
        if let Ok(s) = core::str::from_utf8(&bytes[..len]) {
            if !hits(s) {
                let v = En::from_str(s).unwrap();
                let t = v.to_string();
                assert!(t.as_bytes() == s.as_bytes());
            }
        }
    }
}
''' % (prog.name, vspec.rust_inst(prog), L, spec_parse.FOLD_EQ, hits_rust(prog), max(L + 3, 10))
    def kani_harnesses(self, ctx, prog):
        if 'EnumString' in prog.derives and ctx.tier == 'thorough':
            return [('rt_default_captures_and_prints_input', 'roundtrip')]
        return []
    def run(self, ctx):
        r = Unit.run(self, ctx)
        return r
    def extra_checks(self, ctx, progs, items):
        if any(o.backend == 'kani' for o in ctx.obligations):
            ctx.bounded.append('round trip from_str(s)?.to_string() == s: Kani, all valid UTF-8 strings of length <= min(longest spelling + 1, 5)')

def hits_rust(prog):
    lines = []
    for v in prog.enabled():
        if v.default:
            continue
        ci = oracle.is_ci(prog, v)
        from ..model import rs_str
        for p in oracle.spellings(prog, v):
            cond = 'fold_eq(s, %s)' % rs_str(p) if ci else 's.as_bytes() == %s.as_bytes()' % rs_str(p)
            lines.append('        if %s { return true; }' % cond)
    return '\n'.join(lines)

def run(ctx):
    return ForwardUnit().run(ctx)
