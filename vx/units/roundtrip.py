"""C02: printing a variant and parsing the result returns the same variant (decided by Kani on the real code)."""
from .. import core, corpus, spec_print, spec_parse, run_kani, vspec, oracle
from .common import Unit
from ..model import rs_str

class RoundTripUnit(Unit):
    rule = ('the EnumString corpus (non-overlapping spellings, no prefix; every naming mix, case-insensitivity, serialize_all styles, disabled/default '
            'variants) with Display + AsRefStr + IntoStaticStr + EnumMessage derived as well; one harness per (in-scope variant, printer), payload symbolic '
            '(quick: 26 programs; thorough: + 110 systematic + 150 random)')
    kani_always = True
    assumptions = (
        'decided by Kani/CBMC on the real derive output and the real std string code: print and parse run back to back, no rewriting, no contract of C01/C03 is used',
        'the variant set is finite and enumerated completely; payload fields are symbolic (full domain); unwinding assertions are on, bound = name length + 3',
        'generic enums are instantiated at T = u8, lifetimes at \'static',
        'Kani does not prove termination (all generated functions involved are loop-free; std string loops are bounded by the name length)',
    )
    def corpus(self, ctx):
        progs = [p for p in corpus.corpus_parse(ctx.tier, ctx.seed) if 'overlap' not in p.tags]   # C02's domain: non-overlapping spellings
        for p in progs:
            p.derives = ['EnumString', 'Display', 'AsRefStr', 'IntoStaticStr', 'EnumMessage']
        return progs
    def skip_verus(self, ctx, prog):
        return 'C02 is decided on the real print-then-parse composition by Kani (DESIGN 7 C02)'
    def gen(self, ctx, prog):
        return '', {}, {}, ''
    def kani_module(self, ctx, prog):
        return spec_print.kani_module(prog, want_names=False, want_rt=True)
    def kani_harnesses(self, ctx, prog):
        return spec_print.kani_harness_list(prog, want_names=False, want_rt=True)
    def make_replay(self, ctx, prog, fn, test):
        # harness name rt_<printer>_<Variant>: the input is the variant itself (payload value is irrelevant to the name)
        parts = fn.split('_')
        return None
    def counterexamples(self, ctx, progs, failed):
        """The failing input of an rt_* harness is the variant named by the harness: replay it with a defaulted payload."""
        import os, shutil
        from .. import replay
        byname = {p.name: p for p in progs}
        done = 0
        for o in failed:
            if done >= 3 or o.backend != 'kani':
                continue
            p = byname[o.prog]
            h = o.oid.split('kani:')[-1]
            vname = h.split('_')[-1]
            v = [x for x in p.variants if x.ident == vname]
            if not v:
                continue
            v = v[0]
            pn = h[3:-(len(vname) + 1)]
            inst = vspec.rust_inst(p)
            if pn == 'ser':
                body = 'let mut bad = false; for s in v.get_serializations() { let r = En::from_str(s); println!("from_str({:?}) = {:?} (expected Ok({:?}))", s, r, exp); if r != Ok(exp()) { bad = true; } }'
                body = body.replace('exp)', 'exp())')
            else:
                expr = [e for n, e, _ in spec_print.printers_of(p) if n == pn]
                if not expr:
                    continue
                body = 'let s: String = %s; let r = En::from_str(&s); println!("printed {:?}; from_str = {:?} (expected Ok({:?}))", s, r, exp()); let bad = r != Ok(exp());' % expr[0]
            main = '''use core::str::FromStr; use strum::EnumMessage;
type En = %s%s;
fn exp() -> En { %s }
fn main() {
    let v: En = exp();
    %s
    if bad { println!("REPLAY-FAIL print-then-parse does not return the variant") } else { println!("REPLAY-OK") }
}''' % (p.name, inst, spec_parse.rust_value(p, v), body)
            rr = replay.build_and_run(os.path.join(ctx.dir, 'replay_run'), p.module_source(), main)
            o.cex = {'variant': v.ident, 'printer': pn, 'native': rr}
            o.replay_program = {'program': p.module_source(), 'main': main, 'features': ['derive']}
            if replay.failed(rr):
                o.replayed = True
                done += 1
        shutil.rmtree(os.path.join(ctx.dir, 'replay_run'), ignore_errors=True)

def run(ctx):
    return RoundTripUnit().run(ctx)
