"""C06: from_repr(d) is Some(V) iff d is the discriminant rustc gives enabled variant V."""
from .. import core, corpus, spec_repr, run_kani, vspec
from .common import Unit

class ReprUnit(Unit):
    rule = ('enumerated: repr {none,u8..isize} x discriminants {implicit, explicit, negative, expression, gapped, descending, extreme} x '
            'disabled placement {none, first, middle, last, adjacent} x payloads/generics (quick: 12 programs; thorough: systematic cross + 16 seeded random)')
    verus_top = 'verus! { global size_of usize == 8; }'
    assumptions = (
        'oracle for discriminants is rustc itself: `S::V as R` evaluated by the compiler inside Verus (and inside the Kani twin)',
        'rewrites R10 (`const fn` qualifier dropped; const-callability is discharged by rustc on `const _: .. = E::from_repr(..)` items), R7',
        'usize is 64 bit (`global size_of usize == 8`)',
    )
    def corpus(self, ctx):
        progs = corpus.corpus_repr(ctx.tier, ctx.seed)
        for p in progs:
            en = p.enabled()
            if not p.has_payload() and not p.generics_use and en:
                # "callable in const context when no variant carries data": a rustc obligation
                p.extra_rust = 'const _: Option<%s> = %s::from_repr(%s::%s as %s);' % (p.name, p.name, p.name, en[0].ident, spec_repr.repr_ty(p))
        return progs
    def gen(self, ctx, prog):
        return spec_repr.gen(prog)
    def skip_verus(self, ctx, prog):
        import re
        if any(v.disc and re.search(r'<<|>>|/|%|\||&|\^', v.disc) for v in prog.variants):
            return 'discriminant expressions with shift / division / bit operators are outside Verus\' const evaluation; decided by the Kani twin (every d of the repr type, bit-precise)'
    def kani_module(self, ctx, prog):
        return spec_repr.kani_module(prog)
    def kani_harnesses(self, ctx, prog):
        return [('twin_from_repr', 'from_repr')]
    def twin_of(self, ctx, prog, fn):
        return 'twin_from_repr'
    def make_replay(self, ctx, prog, fn, test):
        R = spec_repr.repr_ty(prog)
        if not test['values']:
            return None
        d = run_kani.le_int(test['values'][0], signed=R.startswith('i'))
        inst = vspec.rust_inst(prog)
        use_shadow = prog.has_payload() or bool(prog.generics_use)
        S = 'Shadow' if use_shadow else prog.name
        shadow = prog.shadow_enum('Shadow').replace('pub enum', '#[allow(dead_code)] enum') if use_shadow else ''
        arms = ''.join('    if d == (%s::%s as %s) { return Some(%s); }\n' % (S, v.ident, R, vspec.rust_default_value(prog, v)) for v in prog.enabled())
        main = '''type En = %s%s;
%s
fn expected(d: %s) -> Option<En> {
%s    None
}
fn main() {
    let d: %s = %d;
    let got = En::from_repr(d);
    let exp = expected(d);
    println!("from_repr({}) = {:?} (expected {:?}: discriminants as computed by rustc's `as` cast)", d, got, exp);
    if got == exp { println!("REPLAY-OK") } else { println!("REPLAY-FAIL observed != expected") }
}''' % (prog.name, inst, shadow, R, arms, R, d)
        return main, {'d': d, 'repr': R}
    def extra_checks(self, ctx, progs, items):
        for p in progs:
            if p.extra_rust:
                o = core.Obligation('%s/rustc:from_repr-callable-in-const-context' % p.name, p.name, 'const_fn', 'rustc', ['C06'])
                o.status = 'discharged'
                ctx.obligations.append(o)
    def sample(self, ctx, prog, plan):
        c = plan[(prog.name, None, 'from_repr')]
        return {'program': prog.rust_source(), 'obligation': '%s::from_repr' % prog.name, 'contract': {'ensures': [t for _, t in c.ensures]}}

def run(ctx):
    return ReprUnit().run(ctx)
