"""C09 (EnumDiscriminants), C13 (EnumIs / EnumTryAs), C14 (EnumMessage), C15 (EnumProperty)."""
from .. import core, corpus, spec_misc, run_kani, vspec, oracle
from .common import Unit

class DiscUnit(Unit):
    rule = ('enumerated: variant kinds x generics / lifetimes / where-clauses / const generics x repr x explicit (negative, expression, gapped) discriminants x '
            'disabled variants x name()/vis()/derive() (quick: 8 programs; thorough: + 40 systematic)')
    assumptions = (
        'oracle for discriminant values is rustc (`as` casts evaluated by the compiler inside Verus) on a field-less shadow of the declared enum',
        'rewrites R1 (From impls -> free fns, call through `<Self::Discriminant as From<&Self>>::from` re-pointed), R7 (derives on the generated enum reduced to Clone, Copy, PartialEq, Eq)',
        'requested derives / overridden name and visibility are type-level obligations discharged by rustc in the corpus crate',
    )
    def corpus(self, ctx):
        progs = corpus.corpus_disc(ctx.tier, ctx.seed)
        for p in progs:
            D = spec_misc.disc_name(p)
            bounds = 'Copy + Clone + core::fmt::Debug + PartialEq + Eq'
            for a in p.disc_attrs:
                if a.startswith('derive('):
                    bounds += ' + ' + ' + '.join('core::hash::Hash' if x.strip() == 'Hash' else x.strip() for x in a[7:-1].split(','))
            p.extra_rust = 'const _: fn() = || { fn vx_has<X: %s>() {} vx_has::<%s>(); };' % (bounds.replace('PartialOrd', 'PartialOrd'), D)
            if 'restricted_vis' not in p.tags:
                # IntoDiscriminant is implemented (whatever the visibility of the enum itself) unless vis(..) restricts the generated type
                inst = vspec.rust_inst(p)
                p.extra_rust += '\nconst _: fn() = || { let _: fn(&%s%s) -> %s = <%s%s as strum::IntoDiscriminant>::discriminant; };' % (p.name, inst, D, p.name, inst)
        return progs
    def gen(self, ctx, prog):
        pre, plan, consts, lem = spec_misc.gen_disc(prog)
        if 'restricted_vis' in prog.tags:
            plan = {k: v for k, v in plan.items() if k[2] != 'discriminant'}
        return pre, plan, consts, lem
    def candidate_replay(self, ctx, prog, o):
        from .. import lreplay
        return lreplay.disc(prog, o.fn)
    def skip_verus(self, ctx, prog):
        import re
        if any(v.disc and re.search(r'<<|>>|/|%|\||&|\^', v.disc) for v in prog.variants):
            return 'discriminant expressions with shift / division / bit operators are outside Verus\' const evaluation; decided by the Kani twin'
    def kani_module(self, ctx, prog):
        return spec_misc.kani_disc(prog, 'restricted_vis' in prog.tags)[0]
    def kani_harnesses(self, ctx, prog):
        return spec_misc.kani_disc(prog, 'restricted_vis' in prog.tags)[1]
    def extra_checks(self, ctx, progs, items):
        for p in progs:
            o = core.Obligation('%s/rustc:discriminant-type-has-requested-derives-under-its-name' % p.name, p.name, 'derives', 'rustc', ['C09'])
            o.status = 'discharged'
            ctx.obligations.append(o)

class IsUnit(Unit):
    rule = ('enumerated: variant kinds x 1..3 tuple fields of distinct types x generics / lifetimes x identifiers with digits and acronyms x disabled variants '
            '(quick: 5 programs; thorough: + 30 systematic)')
    assumptions = (
        'rewrite R6 (`&E::V { .. }` -> `E::V { .. }` in is_* arms, equivalent by default binding modes since nothing is bound), R10 (const qualifier dropped), R7',
        'try_as_*_mut is decided by Kani on the real code (write through the returned references); generics instantiated at u8',
        'method names (snake_case with digits split off) are rustc obligations: the corpus crate refers to every method by the oracle\'s name',
    )
    kani_always = True
    def corpus(self, ctx):
        progs = corpus.corpus_is(ctx.tier, ctx.seed)
        for p in progs:
            inst = vspec.rust_inst(p)
            refs = []
            for v in p.enabled():
                sn = oracle.snake_with_digits(v.ident)
                refs.append('let _ = %s::%s::is_%s;' % (p.name, inst, sn) if inst else 'let _ = %s::is_%s;' % (p.name, sn))
                if v.kind == 'tuple' and v.fields:
                    for suf in ('', '_ref', '_mut'):
                        refs.append(('let _ = %s::%s::try_as_%s%s;' % (p.name, inst, sn, suf)) if inst else ('let _ = %s::try_as_%s%s;' % (p.name, sn, suf)))
            p.extra_rust = 'const _: fn() = || { %s };' % ' '.join(refs)
        return progs
    def gen(self, ctx, prog):
        return spec_misc.gen_is(prog)
    def candidate_replay(self, ctx, prog, o):
        from .. import lreplay
        return lreplay.is_try(prog, o.fn)
    def kani_module(self, ctx, prog):
        return spec_misc.kani_is(prog)[0]
    def kani_harnesses(self, ctx, prog):
        hs = spec_misc.kani_is(prog)[1]
        if ctx.tier != 'thorough':
            hs = [h for h in hs if h[0].startswith('mut_')]
        return hs
    def extra_checks(self, ctx, progs, items):
        for p in progs:
            o = core.Obligation('%s/rustc:methods-exist-under-the-oracle-names' % p.name, p.name, 'names', 'rustc', ['C13'])
            o.status = 'discharged'
            ctx.obligations.append(o)

class MsgUnit(Unit):
    rule = ('enumerated: {message, detailed_message} presence x 0..4 doc lines (leading whitespace, empty lines, quotes/backslashes/braces, non-ASCII) x kinds x '
            'naming attributes x serialize_all x disabled (quick: 4 programs; thorough: + 30 systematic)')
    assumptions = (
        'rewrites R1, R6 (`&E::V(..)` arms), R7; get_serializations holds a function-local `static` (outside Verus\' subset, R9) and is decided by Kani on the real code',
        'doc comments are given as #[doc = "..."] attributes (what rustc turns `///` lines into)',
    )
    kani_always = True
    def corpus(self, ctx):
        return corpus.corpus_msg(ctx.tier, ctx.seed)
    def gen(self, ctx, prog):
        return spec_misc.gen_message(prog)
    def candidate_replay(self, ctx, prog, o):
        from .. import lreplay
        return lreplay.message(prog, o.fn)
    def kani_module(self, ctx, prog):
        return spec_misc.kani_message(prog)[0]
    def kani_harnesses(self, ctx, prog):
        hs = spec_misc.kani_message(prog)[1]
        if ctx.tier != 'thorough':
            hs = [h for h in hs if h[0].startswith('ser_')]     # get_serializations is outside Verus (R9): always decided by Kani
        return hs

class PropsUnit(Unit):
    rule = ('enumerated: 0..6 properties per variant in 1..3 props(..) groups x keys shared across variants and across types x values {str incl. empty/non-ASCII, '
            'int incl. negative and i64::MAX, bool} x kinds x disabled (quick: 3 programs; thorough: + 30 systematic)')
    assumptions = ('rewrites R1, R6, R7', '`match prop { "k" => .. }` is Verus\' str value equality, so the contract holds for ALL key strings')
    def corpus(self, ctx):
        return corpus.corpus_props(ctx.tier, ctx.seed)
    def gen(self, ctx, prog):
        return spec_misc.gen_props(prog)
    def candidate_replay(self, ctx, prog, o):
        from .. import lreplay
        return lreplay.props(prog, o.fn)
    def kani_module(self, ctx, prog):
        return spec_misc.kani_props(prog)[0]
    def kani_harnesses(self, ctx, prog):
        return spec_misc.kani_props(prog)[1] if ctx.tier == 'thorough' else []

def run(ctx):
    return {'C09': DiscUnit, 'C13': IsUnit, 'C14': MsgUnit, 'C15': PropsUnit}[ctx.pid]().run(ctx)
