"""C16: use_phf is a pure optimisation of EnumString (Kani on the real plain and phf-backed parsers, incl. the real phf::Map::get)."""
import os, shutil
from .. import core, corpus, spec_parse, run_kani, vspec, oracle, replay
from .common import Unit
from ..model import rs_str

class PhfUnit(Unit):
    features = ('derive', 'phf')
    kani_always = True
    kani_jobs = 12
    kani_harness_timeout = 900
    rule = ('every program twice (plain / #[strum(use_phf)]): unit-variant Clone enums with mixed-case, all-lowercase, all-uppercase, caseless, empty and non-ASCII spellings x '
            'case-insensitivity at enum and variant level x disabled / default variants x custom error (quick: 11 pairs; thorough: + 40 systematic)')
    assumptions = (
        'BOUNDED: Kani explores all valid UTF-8 inputs of length <= L = min(longest spelling + 1, 6); longer inputs are not covered',
        '"still compiles with use_phf" is a rustc obligation: the phf twin is part of the corpus crate',
        'the real phf::Map::get (SipHash) runs under CBMC; no model of it is used',
    )
    level = 'proof'
    def corpus(self, ctx):
        return corpus.corpus_phf(ctx.tier, ctx.seed)
    def skip_verus(self, ctx, prog):
        return 'decided by Kani on the real twins (phf map lookup is outside Verus\' reach)'
    def gen(self, ctx, prog):
        return '', {}, {}, ''
    def L(self, prog):
        return max(1, min(spec_parse.max_len(prog) + 1, 6))
    def kani_module(self, ctx, prog):
        L = self.L(prog)
        return '''
#[cfg(kani)]
mod vx_proofs {
    use super::*;
    const L: usize = %d;
    #[kani::proof]
    #[kani::unwind(%d)]
    fn phf_equals_plain() {
        let bytes: [u8; L] = kani::any();
        let len: usize = kani::any();
        kani::assume(len <= L);
        if let Ok(s) = core::str::from_utf8(&bytes[..len]) {
            let a = %s::from_str(s);
            let b = %s::from_str(s);
            // same variant (with the same captured input) or the same error
            assert!(format_eq(&a, &b));
        }
    }
    fn format_eq(a: &Result<%s, %s>, b: &Result<%s, %s>) -> bool {
        match (a, b) {
%s
            (Err(x), Err(y)) => x == y,
            _ => false,
        }
    }
}
''' % (L, (max(L + 3, 10) if err_ty(prog) == 'PErr' else L + 3), prog.name, prog.inner.name, prog.name, err_ty(prog), prog.inner.name, err_ty(prog), arms(prog))
    def kani_harnesses(self, ctx, prog):
        return [('phf_equals_plain', 'from_str')]
    def extra_checks(self, ctx, progs, items):
        for p in progs:
            o = core.Obligation('%s/rustc:twin-with-use_phf-compiles' % p.name, p.name, 'compiles', 'rustc', ['C16'])
            o.status = 'discharged'
            ctx.obligations.append(o)
        ctx.bounded.append('phf twin == plain twin for all valid UTF-8 inputs of length <= min(longest spelling + 1, 6) (Kani, unwinding assertions on)')
    def counterexamples(self, ctx, progs, failed):
        byname = {p.name: p for p in progs}
        # (1) twin does not build: replay = the program itself, the compiler diagnostic is the evidence
        for o in failed:
            if o.backend == 'rustc':
                p = [q for q in ctx.programs if q.name == o.prog]
                if p:
                    p = p[0]
                    main = 'fn main() { println!("REPLAY-OK (the program compiles with use_phf)"); }'
                    rr = replay.build_and_run(os.path.join(ctx.dir, 'replay_run'), p.module_source(), main, features=self.features, profiles=('debug',))
                    o.cex = {'program_does_not_compile_with_use_phf': True, 'native': rr}
                    o.replay_program = {'program': p.module_source(), 'main': main, 'features': list(self.features), 'expect_compiles': True}
                    if rr['debug']['rc'] != 0:
                        o.replayed = True
        shutil.rmtree(os.path.join(ctx.dir, 'replay_run'), ignore_errors=True)
        kf = [o for o in failed if o.backend == 'kani']
        if kf:
            Unit.counterexamples(self, ctx, progs, kf)
    def make_replay(self, ctx, prog, fn, test):
        vals = test['values']
        bs = [v[0] for v in vals if len(v) == 1]
        lens = [v for v in vals if len(v) == 8]
        if not lens:
            return None
        n = run_kani.le_int(lens[0])
        if n > len(bs):
            return None
        try:
            s = bytes(bs[:n]).decode('utf-8')
        except Exception:
            return None
        main = '''use core::str::FromStr;
fn main() {
    let s: &str = %s;
    let a = %s::from_str(s);
    let b = %s::from_str(s);
    println!("plain from_str({:?}) = {:?}; with use_phf = {:?}", s, a, b);
    if format!("{:?}", a).replace("%s", "%s") == format!("{:?}", b) { println!("REPLAY-OK") } else { println!("REPLAY-FAIL use_phf changes the result") }
}''' % (rs_str(s), prog.name, prog.inner.name, prog.inner.name, prog.name)
        return main, {'input': s}

def err_ty(prog):
    dv = spec_parse.default_variant(prog)
    return prog.parse_err_ty if (prog.parse_err_ty and dv is None) else 'strum::ParseError'

def arms(prog):
    out = []
    for v in prog.variants:
        if v.kind == 'unit':
            out.append('            (Ok(%s::%s), Ok(%s::%s)) => true,' % (prog.name, v.ident, prog.inner.name, v.ident))
        elif v.kind == 'tuple':
            out.append('            (Ok(%s::%s(x)), Ok(%s::%s(y))) => x == y,' % (prog.name, v.ident, prog.inner.name, v.ident))
        else:
            f = v.fields[0].name
            out.append('            (Ok(%s::%s { %s: x }), Ok(%s::%s { %s: y })) => x == y,' % (prog.name, v.ident, f, prog.inner.name, v.ident, f))
    return '\n'.join(out)

def run(ctx):
    return PhfUnit().run(ctx)
