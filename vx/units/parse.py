"""C01 / C11(capture) / C12 / C18: EnumString."""
from .. import core, corpus, spec_parse, run_kani, vspec, oracle
from .common import Unit


def found_err(unit, prog):
    """(rendered error type declared by the generated FromStr impl, or None)."""
    from .. import assemble, rtok
    toks = assemble.find_assoc_type(getattr(unit, '_cur_items', []), prog.name, 'FromStr', 'Err')
    return rtok.render(toks).replace(' ', '') if toks else None

def signature_obligation(ctx, unit, prog):
    """C18 / C01: FromStr::Err and TryFrom::Error are the declared parse_err_ty, else strum::ParseError (enums without a default variant)."""
    from .. import assemble, rtok, core, spec_parse
    if spec_parse.default_variant(prog) is not None and prog.parse_err_ty:
        return
    want = prog.parse_err_ty if (prog.parse_err_ty and spec_parse.default_variant(prog) is None) else 'ParseError'
    for tr, nm in (('FromStr', 'Err'), ('TryFrom', 'Error')):
        toks = assemble.find_assoc_type(getattr(unit, '_cur_items', []), prog.name, tr, nm)
        if toks is None:
            continue
        got = rtok.path_last_ident(toks)
        o = core.Obligation('%s/signature:%s::%s' % (prog.name, tr, nm), prog.name, '%s::%s' % (tr, nm), 'signature', [ctx.pid])
        if got == want.split('::')[-1]:
            o.status = 'discharged'
        else:
            o.status = 'failed'
            o.kinds = ['signature']
            o.detail = 'generated `type %s = %s;` but the property requires %s' % (nm, rtok.render(toks), want)
        ctx.obligations.append(o)

class ParseUnit(Unit):
    rule = ('enumerated: per variant {no attr, 1..3 serialize, to_string, both} x ascii_case_insensitive {absent, bare, =true, =false} x enum flag x '
            'serialize_all styles x disabled placement x default {none, tuple, named} x default_with x parse_err {std, custom} x kinds/generics/lifetimes; '
            'spellings mixed/lower/upper/caseless/empty/non-ASCII, non-overlapping by construction (quick: 12 programs; thorough: + 110 systematic)')
    assumptions = (
        'assumed std contract: str::eq_ignore_ascii_case(a, b) == (fold(a@) == fold(b@)) with fold mapping only A-Z (cross-checked by Kani on the real std code for all byte strings of length <= 5)',
        '`match s { "lit" => .. }` and `s == "lit"` are Verus\' str value equality',
        'corpus fixtures (Cap: From<&str> keeps the input verbatim; perr; dw_* functions) are external_body / verified fixtures, not strum code',
        'rewrites R1 (FromStr/TryFrom impls -> inherent fns; try_from\'s call through FromStr re-pointed at the generated from_str), R7, R11 (::strum:: -> mirror module; rustc checks the mirror)',
    )
    kani_harness_timeout = 900
    def corpus(self, ctx):
        return corpus.corpus_parse(ctx.tier, ctx.seed, ctx.pid)
    def gen(self, ctx, prog):
        signature_obligation(ctx, self, prog)
        return spec_parse.gen(prog, ctx.pid, found_err(self, prog))
    def kani_module(self, ctx, prog):
        extra = spec_parse.EQ_IGNORE_HARNESS if prog is self._first and ctx.pid == 'C12' else ''
        return spec_parse.kani_module(prog, extra=extra)
    def kani_harnesses(self, ctx, prog):
        hs = []
        if ctx.tier == 'thorough' and spec_parse.max_len(prog) <= 7 and 'overlap' not in prog.tags and 'random' not in prog.tags:
            hs.append(('twin_from_str', 'from_str'))
        if ctx.pid == 'C12' and prog is self._first:
            hs += [('twin_eq_ignore_ascii_case', 'eq_ignore_ascii_case'), ('twin_unicode_lookalikes', 'eq_ignore_ascii_case')]
        return hs
    def twin_of(self, ctx, prog, fn):
        return 'twin_from_str_ascii'
    def fallback_harnesses(self, ctx, prog, fns):
        if 'overlap' in prog.tags:
            return []
        non_ascii = any(ord(ch) > 127 for v in prog.variants for sp in oracle.spellings(prog, v) for ch in sp)
        return [('twin_from_str', 'from_str')] if non_ascii else [('twin_from_str_ascii', 'from_str')]
    def run(self, ctx):
        self._first = None
        self.kani_always = (ctx.pid == 'C12')
        return Unit.run(self, ctx)
    def build_modules(self, ctx, progs, items):
        self._first = progs[0] if progs else None
        try:
            return Unit.build_modules(self, ctx, progs, items)
        except spec_parse.Overlap as e:
            raise core.Undecided('corpus error: %s' % e)
    def make_replay(self, ctx, prog, fn, test):
        vals = test['values']
        bs = [v[0] for v in vals if len(v) == 1]
        lens = [v for v in vals if len(v) == 8]
        if not lens:
            return None
        n = run_kani.le_int(lens[0])
        if n > len(bs):
            return None
        b = bytes(bs[:n])
        try:
            s = b.decode('utf-8')
        except Exception:
            return None
        from ..model import rs_str
        inst = vspec.rust_inst(prog)
        dv = spec_parse.default_variant(prog)
        err_ty = prog.parse_err_ty if (prog.parse_err_ty and dv is None) else 'strum::ParseError'
        main = '''use core::str::FromStr; use core::convert::TryFrom;
type En = %s%s;
%s
fn expected(s: &str) -> Result<En, %s> {
%s
}
fn main() {
    let s: &str = %s;
    let c0 = perr_calls();
    let got = En::from_str(s);
    let calls = perr_calls() - c0;
    let want_calls = if got.is_err() && %s { 1 } else { 0 };
    let got2 = En::try_from(s);
    let exp = expected(s);
    println!("from_str({:?}) = {:?}; try_from = {:?} (expected {:?}); parse_err_fn was called {} time(s) (expected {})", s, got, got2, exp, calls, want_calls);
    if got == exp && got2 == exp && calls == want_calls { println!("REPLAY-OK") } else { println!("REPLAY-FAIL observed != expected") }
}''' % (prog.name, inst, spec_parse.FOLD_EQ, err_ty, spec_parse.rust_expected(prog, inst), rs_str(s), 'true' if (prog.parse_err_fn and dv is None) else 'false')
        return main, {'input': s}
    def candidate_replay(self, ctx, prog, o):
        from .. import lreplay
        return lreplay.parse(prog, o.fn)
    def sample(self, ctx, prog, plan):
        c = plan[(prog.name, 'FromStr', 'from_str')]
        return {'program': prog.rust_source(), 'obligation': '%s::from_str' % prog.name, 'contract': {'ensures': [t for _, t in c.ensures]}}

def run(ctx):
    return ParseUnit().run(ctx)
