"""C10: EnumTable is a total map from enabled variants to values."""
from .. import core, corpus, spec_table, run_kani, vspec
from .common import Unit

class TableUnit(Unit):
    rule = ('enumerated: field-less enums with N=1..6 enabled variants x placement of 0..2 disabled variants x identifiers with digits/acronyms '
            '(quick: 6 programs; thorough: all placements for N<=3, a third of them for N=4..6, + 8 seeded random)')
    assumptions = (
        'rewrites R1 (Index/IndexMut impls -> inherent fns), R5 (panic! -> vx_panic, ensures false), R7 (std derives on the table struct reduced)',
        'Clone (`cloned`), closures (`requires`/`ensures` of F) and `?` on Result follow vstd\'s specifications',
        'derive(Clone, Default, PartialEq, Eq, Hash, Debug) on the table struct are std derives outside the property',
    )
    def corpus(self, ctx):
        return corpus.corpus_table(ctx.tier, ctx.seed)
    def gen(self, ctx, prog):
        return spec_table.gen(prog)
    def kani_module(self, ctx, prog):
        return spec_table.kani_module(prog)[0]
    def kani_harnesses(self, ctx, prog):
        return spec_table.kani_module(prog)[1] if ctx.tier == 'thorough' else []
    def verus_text(self, ctx, prog, pre, asm, lemmas):
        # the table struct must be declared before the `slot` view
        return '\n'.join([prog.aux_verus, '#[derive(Clone, Copy)]', prog.verus_enum(), asm.text, pre, lemmas])
    def sample(self, ctx, prog, plan):
        c = plan[(prog.name + 'Table', 'IndexMut', 'index_mut')]
        return {'program': prog.rust_source(), 'obligation': '%sTable::index_mut' % prog.name, 'contract': {'ensures': [t for _, t in c.ensures]}}

def run(ctx):
    return TableUnit().run(ctx)
