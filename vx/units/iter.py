"""C04 / C05: EnumIter content and iterator contract."""
import os, shutil
from .. import core, corpus, expand, spec_iter, assemble, run_kani, replay, vspec

RULE = ('enumerated: enabled count N x placement of disabled variants x variant kinds (unit/tuple/named) x '
        'type/const generics (quick: 10 programs; thorough: every placement of 0..2 disabled for N<=4, N=5..8, + 12 seeded random)')

TWIN = {'nth': 'twin_nth', 'next': 'twin_next', 'next_back': 'twin_next_back', 'size_hint': 'twin_size_hint',
        'len': 'twin_len', 'clone': 'twin_clone', 'iter': 'twin_iter', 'get': 'twin_get', 'COUNT': 'twin_iter',
        'vx_reach_iter': 'twin_iter'}

def build_modules(ctx, progs, items, mode):
    mods = []
    for p in progs:
        if p.name not in items:
            continue
        if not p.variants:
            ctx.not_verified_by_verus.add('%s: enum without variants (Verus: "datatype must have at least one non-recursive variant"); decided by the Kani twins' % p.name)
            continue
        pre, plan, consts, lemmas = spec_iter.gen(p, mode)
        try:
            asm = assemble.assemble_program(p, items[p.name], plan, consts)
        except Exception as e:
            ctx.undecided.append('lost-anchor %s: %s' % (p.name, e))
            continue
        missing = [k for k in list(plan) + list(consts) if k not in asm.seen_keys]
        if missing:
            ctx.undecided.append('lost-anchor %s: generated function(s) not found: %s' % (p.name, missing))
            continue
        text = '\n'.join([p.aux_verus, p.verus_enum(), pre, asm.text, lemmas])
        expected = []
        for vname, key, c in asm.functions:
            if ctx.pid in c.props:
                expected.append((vname, c.props, [l for l, _ in c.requires] + [l for l, _ in c.ensures]))
                ctx.functions_under_contract.add('%s::%s' % (key[0].replace(p.name, 'E'), key[2]))
        expected.append(('vx_reach_iter', [ctx.pid], ['reachability']))
        for k, v in asm.stats.items():
            ctx.stats[k] = ctx.stats.get(k, 0) + v
        mods.append(core.VerusModule(p, text, expected, asm.stats, asm.dropped))
        if len(ctx.samples) < 3:
            ctx.samples.append({'program': p.rust_source(), 'obligation': '%s::nth' % (p.name + 'Iter'),
                                'contract': {'requires': [t for _, t in plan[(p.name + 'Iter', 'Iterator', 'nth')].requires],
                                             'ensures': [t for _, t in plan[(p.name + 'Iter', 'Iterator', 'nth')].ensures]}})
    return mods

# ---- replay -----------------------------------------------------------------------------

def history_for_state(N, a, b):
    """API history that drives a fresh iterator into state (idx=a, back_idx=b) (wf states only)."""
    if a + b <= N:
        return [('next', None)] * a + [('next_back', None)] * b
    if a == N:
        return [('next_back', None)] * b + [('nth', N)]
    if b == N:
        return [('next', None)] * a + [('next_back', None)] * (N - a + 1)
    return None

def replay_main(prog, history, op, n):
    en = prog.enabled()
    inst = vspec.rust_inst(prog)
    items = ', '.join(vspec.rust_default_value(prog, v) for v in en)
    lines = []
    L = lines.append
    L('use strum::IntoEnumIterator; use std::collections::VecDeque;')
    L('type En = %s%s;' % (prog.name, inst))
    L('fn var() -> VecDeque<En> { let v: Vec<En> = vec![%s]; v.into() }' % items)
    L('fn m_nth(m: &mut VecDeque<En>, n: usize) -> Option<En> { if n < m.len() { for _ in 0..n { m.pop_front(); } m.pop_front() } else { m.clear(); None } }')
    L('fn main() {')
    L('    let r = std::panic::catch_unwind(|| {')
    L('        let mut it = En::iter(); let mut m = var(); let mut bad = false;')
    def step(kind, arg, tag):
        if kind == 'next':
            L('        { let g = it.next(); let e = m.pop_front(); println!("%s next() = {:?} (expected {:?})", g, e); if g != e { bad = true; } }' % tag)
        elif kind == 'next_back':
            L('        { let g = it.next_back(); let e = m.pop_back(); println!("%s next_back() = {:?} (expected {:?})", g, e); if g != e { bad = true; } }' % tag)
        elif kind == 'nth':
            L('        { let g = it.nth(%dusize); let e = m_nth(&mut m, %dusize); println!("%s nth(%d) = {:?} (expected {:?})", g, e); if g != e { bad = true; } }' % (arg, arg, tag, arg))
        elif kind == 'size_hint':
            L('        { let g = it.size_hint(); let e = (m.len(), Some(m.len())); println!("%s size_hint() = {:?} (expected {:?})", g, e); if g != e { bad = true; } }' % tag)
        elif kind == 'len':
            L('        { let g = it.len(); let e = m.len(); println!("%s len() = {:?} (expected {:?})", g, e); if g != e { bad = true; } }' % tag)
        elif kind == 'clone':
            L('        { let mut c = it.clone(); let g: Vec<En> = c.by_ref().collect(); let e: Vec<En> = m.iter().map(|x| En::clone_like(x)).collect(); }')
    for k, a in history:
        step(k, a, 'history:')
    if op == 'clone':
        L('        { let c = it.clone(); let g = c.len(); let e = m.len(); println!("op: clone().len() = {:?} (expected {:?})", g, e); if g != e { bad = true; } }')
    elif op in ('iter', 'get', 'COUNT', 'vx_reach_iter'):
        L('        { let g: Vec<En> = En::iter().collect(); let e: Vec<En> = var().into_iter().collect(); println!("op: iter().collect() = {:?} (expected {:?})", g, e); if g != e { bad = true; } }')
        L('        { let g = <En as strum::EnumCount>::COUNT; let e = var().len(); println!("op: COUNT = {:?} (expected {:?})", g, e); if g != e { bad = true; } }')
    else:
        step(op, n, 'op:')
    step('len', None, 'after:')
    step('next', None, 'after:')
    step('next_back', None, 'after:')
    step('len', None, 'after:')
    L('        bad')
    L('    });')
    L('    match r { Ok(false) => println!("REPLAY-OK"), Ok(true) => println!("REPLAY-FAIL observed != expected"), Err(_) => println!("REPLAY-FAIL panicked") }')
    L('}')
    return '\n'.join(lines)

def kani_crate(ctx, progs):
    d = os.path.join(ctx.dir, 'kani')
    os.makedirs(d, exist_ok=True)
    for p in progs:
        p.kani_rust = spec_iter.kani_module(p)
    expand.write_crate(d, 'kani_' + ctx.pid.lower(), progs)
    for p in progs:
        p.kani_rust = ''
    return d

def counterexamples(ctx, progs, failed):
    """Kani twins of the failed Verus obligations -> concrete inputs -> native replay."""
    byname = {p.name: p for p in progs}
    d = kani_crate(ctx, progs)
    want = {}
    for o in failed:
        fn = o.fn.split('::')[-1].replace('vx_const_', '')
        fn = 'COUNT' if fn.endswith('COUNT') else fn
        tw = TWIN.get(fn)
        if tw:
            want.setdefault('%s::vx_proofs::%s' % (byname[o.prog].name_mod(), tw), []).append((o, fn))
    if not want:
        return
    res = run_kani.run(d, filters=sorted(want), jobs=8)
    ctx.log('kani twins for %d failed obligations: %.1fs rc=%s' % (len(failed), res.wall, res.rc))
    if res.compile_error:
        ctx.log('kani: ' + res.compile_error[:300])
        return
    done = 0
    for hid, lst in sorted(want.items()):
        h = res.harnesses.get(hid)
        if not h or h['status'] == 'Success':
            continue
        if done >= 3:
            # the same defect in further programs: reuse the shape, skip the slow playback
            continue
        tests = run_kani.playback(d, hid)
        for o, fn in lst:
            p = byname[o.prog]
            N = len(p.enabled())
            for t in tests:
                vals = [run_kani.le_int(v) for v in t['values']]
                if fn in ('iter', 'COUNT', 'vx_reach_iter'):
                    a, b, n = 0, 0, 0
                elif len(vals) >= 2:
                    a, b = vals[0], vals[1]
                    n = vals[2] if len(vals) > 2 else 0
                else:
                    continue
                hist = history_for_state(N, a, b)
                if hist is None:
                    continue
                main = replay_main(p, hist, fn, n)
                rr = replay.build_and_run(os.path.join(ctx.dir, 'replay_run'), p.module_source(), main)
                o.cex = {'kani_harness': hid, 'failed_check': t['check'], 'state': {'idx': a, 'back_idx': b}, 'n': n,
                         'history': ['%s(%s)' % (k, '' if x is None else x) for k, x in hist] + ['%s(%s)' % (fn, n if fn == 'nth' else '')],
                         'native': rr}
                o.replay_program = {'program': p.module_source(), 'main': main, 'features': ['derive']}
                if replay.failed(rr):
                    o.replayed = True
                    done += 1
                    break
    shutil.rmtree(os.path.join(ctx.dir, 'replay_run'), ignore_errors=True)

def kani_all(ctx, progs):
    """Thorough tier: every twin on every program as additional obligations (real code, 64-bit precise, loop-free)."""
    d = kani_crate(ctx, progs)
    res = run_kani.run(d, jobs=12)
    ctx.log('kani: all twins %.1fs rc=%s harnesses=%d' % (res.wall, res.rc, len(res.harnesses)))
    be = ctx.backends.setdefault('kani', {})
    be.update({'wall_s': round(res.wall, 1), 'solver_s': round(res.solver_s, 2), 'version': res.version})
    ctx.checker_cmds.append('cargo kani -Z function-contracts -Z stubbing -j 12 (harness modules next to the real derives)')
    if res.compile_error:
        ctx.undecided.append('kani: ' + res.compile_error[:400])
        return
    for p in progs:
        for op in spec_iter.OPS:
            if ctx.pid == 'C04' and op in ('clone', 'size_hint', 'len'):
                continue
            hid = '%s::vx_proofs::twin_%s' % (p.name_mod(), op)
            h = res.harnesses.get(hid)
            o = core.Obligation('%s/kani:%s' % (p.name, 'twin_' + op), p.name, op, 'kani', [ctx.pid])
            if h is None:
                o.status = 'undecided'
                o.detail = 'harness not reported'
            elif h['status'] == 'Success':
                o.status = 'discharged'
                o.time_us = h['duration_ms'] * 1000
            else:
                descs = sorted(set((c['description'] or '') for c in h['failed']))
                if ctx.pid == 'C04' and op == 'nth':
                    # C04 uses nth only as next() calls it; full-domain nth belongs to C05
                    continue
                o.status = 'failed'
                o.kinds = ['overflow' if 'overflow' in ' '.join(descs) else 'assertion']
                o.detail = 'kani failed checks: ' + '; '.join(descs)
            ctx.obligations.append(o)

def run(ctx):
    progs = corpus.corpus_iter(ctx.tier, ctx.seed)
    ctx.programs = progs
    items, rejected = expand.build_and_expand(ctx.dir + '/corpus', 'corpus_' + ctx.pid.lower(), progs, ctx.log)
    core.note_rejected(ctx, rejected)
    mods = build_modules(ctx, progs, items, ctx.pid)
    obls = core.verify_modules(ctx, mods, per_file=4)
    ctx.obligations.extend(obls)
    live = [p for p in progs if p.name in items]
    if ctx.tier == 'thorough' or any(not p.variants for p in live):
        kani_all(ctx, live if ctx.tier == 'thorough' else [p for p in live if not p.variants])
    failed = [o for o in ctx.obligations if o.status == 'failed' and o.backend == 'verus']
    if failed:
        try:
            counterexamples(ctx, live, failed)
        except Exception as e:
            ctx.log('counterexample search failed: %s' % e)
    ctx.assumptions += [
        'programs quantifier covered by the corpus only (DESIGN 1, 6)',
        'rustc compiles the printed token stream as it compiles the in-memory one',
        'rewrites R1 (trait impl -> inherent impl, associated types inlined), R3 (PhantomData<fn() -> T> -> PhantomData<T>), R7 (attributes) preserve behaviour',
        'std default methods built on next/nth/next_back/size_hint (skip, step_by, rev, nth_back, count) are correct',
        'Send + Sync of the iterator type is a type-level obligation discharged by rustc in the corpus crate (thorough tier)',
        'Verus/Z3, Kani/CBMC, rustc are sound; usize width left abstract by Verus',
    ]
    return core.finish(ctx, rule=RULE)
