"""C04 / C05: EnumIter content and iterator contract."""
from .. import core, corpus, spec_iter, run_kani, vspec
from .common import Unit

TWIN = {'nth_back': 'twin_nth_back', 'nth': 'twin_nth', 'next': 'twin_next', 'next_back': 'twin_next_back', 'size_hint': 'twin_size_hint',
        'len': 'twin_len', 'clone': 'twin_clone', 'iter': 'twin_iter', 'get': 'twin_get', 'COUNT': 'twin_iter',
        'vx_reach_iter': 'twin_iter'}

def history_for_state(N, a, b):
    """API history that drives a fresh iterator into state (idx=a, back_idx=b) (wf states only)."""
    if a + b <= N:
        return [('next', None)] * a + [('next_back', None)] * b
    if a == N:
        return [('next_back', None)] * b + [('nth', N)]
    if b == N:
        return [('next', None)] * a + [('next_back', None)] * (N - a + 1)
    return None

def replay_main(prog, history, op, n):
    en = prog.enabled()
    inst = vspec.rust_inst(prog)
    items = ', '.join(vspec.rust_default_value(prog, v) for v in en)
    lines = []
    L = lines.append
    L('use strum::IntoEnumIterator; use std::collections::VecDeque;')
    L('type En = %s%s;' % (prog.name, inst))
    L('fn var() -> VecDeque<En> { let v: Vec<En> = vec![%s]; v.into() }' % items)
    L('fn m_nth(m: &mut VecDeque<En>, n: usize) -> Option<En> { if n < m.len() { for _ in 0..n { m.pop_front(); } m.pop_front() } else { m.clear(); None } }')
    L('fn main() {')
    L('    let r = std::panic::catch_unwind(|| {')
    L('        let mut it = En::iter(); let mut m = var(); let mut bad = false;')
    def step(kind, arg, tag):
        if kind == 'next':
            L('        { let g = it.next(); let e = m.pop_front(); println!("%s next() = {:?} (expected {:?})", g, e); if g != e { bad = true; } }' % tag)
        elif kind == 'next_back':
            L('        { let g = it.next_back(); let e = m.pop_back(); println!("%s next_back() = {:?} (expected {:?})", g, e); if g != e { bad = true; } }' % tag)
        elif kind == 'nth':
            L('        { let g = it.nth(%dusize); let e = m_nth(&mut m, %dusize); println!("%s nth(%d) = {:?} (expected {:?})", g, e); if g != e { bad = true; } }' % (arg, arg, tag, arg))
        elif kind == 'size_hint':
            L('        { let g = it.size_hint(); let e = (m.len(), Some(m.len())); println!("%s size_hint() = {:?} (expected {:?})", g, e); if g != e { bad = true; } }' % tag)
        elif kind == 'nth_back':
            L('        { let g = it.nth_back(%dusize); let e = { let k = %dusize; if k < m.len() { for _ in 0..k { m.pop_back(); } m.pop_back() } else { m.clear(); None } }; println!("%s nth_back(%d) = {:?} (expected {:?})", g, e); if g != e { bad = true; } }' % (arg, arg, tag, arg))
        elif kind == 'len':
            L('        { let g = it.len(); let e = m.len(); println!("%s len() = {:?} (expected {:?})", g, e); if g != e { bad = true; } }' % tag)
    for k, a in history:
        step(k, a, 'history:')
    if op == 'clone':
        L('        { let c = it.clone(); let g = c.len(); let e = m.len(); println!("op: clone().len() = {:?} (expected {:?})", g, e); if g != e { bad = true; } }')
    elif op in ('iter', 'get', 'COUNT', 'vx_reach_iter'):
        L('        { let g: Vec<En> = En::iter().collect(); let e: Vec<En> = var().into_iter().collect(); println!("op: iter().collect() = {:?} (expected {:?})", g, e); if g != e { bad = true; } }')
        L('        { let g: Vec<En> = En::iter().rev().collect(); let e: Vec<En> = var().into_iter().rev().collect(); println!("op: iter().rev().collect() = {:?} (expected {:?})", g, e); if g != e { bad = true; } }')
        L('        { let g = <En as strum::EnumCount>::COUNT; let e = var().len(); println!("op: COUNT = {:?} (expected {:?})", g, e); if g != e { bad = true; } }')
    else:
        step(op, n, 'op:')
    step('len', None, 'after:')
    step('next', None, 'after:')
    step('next_back', None, 'after:')
    step('len', None, 'after:')
    L('        bad')
    L('    });')
    L('    match r { Ok(false) => println!("REPLAY-OK"), Ok(true) => println!("REPLAY-FAIL observed != expected"), Err(_) => println!("REPLAY-FAIL panicked") }')
    L('}')
    return '\n'.join(lines)

def op_of(fn):
    f = fn.split('::')[-1]
    if f.endswith('COUNT'):
        return 'COUNT'
    return f.replace('twin_', '')

class IterUnit(Unit):
    rule = ('enumerated: enabled count N x placement of disabled variants x variant kinds (unit/tuple/named) x '
            'type/const generics (quick: 10 programs; thorough: every placement of 0..2 disabled for N<=4, N=5..8, + 12 seeded random)')
    assumptions = (
        'rewrites R1 (trait impl -> inherent impl, associated types inlined), R3 (PhantomData<fn() -> T> -> PhantomData<T>), R7 (attributes) preserve behaviour',
        'std default methods built on next/nth/next_back/size_hint (skip, step_by, rev, nth_back, count) are correct',
        'Verus leaves the width of usize abstract (32 or 64 bit); Kani twins are 64-bit precise',
        'generic enums: Verus proves for all T: Default; Kani twins instantiate T = u8',
    )
    def corpus(self, ctx):
        progs = corpus.corpus_iter(ctx.tier, ctx.seed)
        for p in progs:
            p.extra_rust = ('const _: fn() = || { fn vx_send_sync<X: Send + Sync>() {} '
                            'struct NotSendSync(*const u8); impl Default for NotSendSync { fn default() -> Self { NotSendSync(core::ptr::null()) } } '
                            '%s };') % ('vx_send_sync::<%sIter%s>();' % (p.name, vspec.rust_inst(p, ty='NotSendSync')))
        return progs
    def gen(self, ctx, prog):
        return spec_iter.gen(prog, ctx.pid)
    def unplanned_overrides(self, ctx, prog, asm):
        # anything the derive generates on the iterator type besides the functions under contract (e.g. an override of count / last /
        # fold / advance_by) would replace a std default method the property relies on
        return [d for d in asm.dropped if d.startswith(prog.name + 'Iter') and not d.endswith('::fmt')]
    def skip_verus(self, ctx, prog):
        if not prog.variants:
            return 'enum without variants (Verus: "datatype must have at least one non-recursive variant"); decided by the Kani twins'
    def blackbox(self, prog):
        """True when the generated iterator no longer has the usize fields idx / back_idx that the contracts and the state-based twins
        are written over (a refactored state representation): the public-API twins stand in."""
        import re, os
        if os.environ.get('VX_FORCE_BLACKBOX'):     # self-test switch: run the public-API twins on an unchanged tree
            return True
        t = getattr(self, 'item_text', {}).get(prog.name)
        if not t:
            return False
        m = re.search(r'struct\s+%sIter\b[^{;]*\{([^}]*)\}' % re.escape(prog.name), t)
        if not m:
            return True
        body = m.group(1)
        return not (re.search(r'\bidx\s*:\s*usize\b', body) and re.search(r'\bback_idx\s*:\s*usize\b', body))
    def kani_module(self, ctx, prog):
        if self.blackbox(prog):
            return spec_iter.kani_blackbox(prog)
        return spec_iter.kani_module(prog)
    def kani_harnesses(self, ctx, prog):
        if self.blackbox(prog):
            return [('bb_history', 'history')]
        ops = spec_iter.OPS
        if ctx.pid == 'C04':
            ops = [o for o in ops if o in ('next', 'next_back', 'iter', 'get', 'nth_back')]
        if len(prog.enabled()) > 16:
            ops = [o for o in ops if o != 'nth_back']      # std's default nth_back loops N + 1 times: not worth unwinding 260 iterations
        return [('twin_' + o, o) for o in ops]
    def twin_of(self, ctx, prog, fn):
        return TWIN.get(op_of(fn))
    def make_replay(self, ctx, prog, fn, test):
        if fn.endswith('history'):
            # values in the order of the kani::any() calls: op (1 byte), then n (8 bytes) for nth / nth_back
            vals = [run_kani.le_int(v) for v in test['values']]
            small = len(prog.enabled()) <= 16
            hist, i = [], 0
            while i < len(vals) and len(hist) < 4:
                op = vals[i]; i += 1
                if op == 0:
                    hist.append(('next', None))
                elif op == 1:
                    hist.append(('next_back', None))
                elif op == 2:
                    if i >= len(vals): break
                    hist.append(('nth', vals[i])); i += 1
                elif small:
                    if i >= len(vals): break
                    hist.append(('nth_back', vals[i])); i += 1
                else:
                    hist.append(('next_back', None))
            if not hist:
                return None
            return replay_main(prog, hist, 'len', 0), {'history': ['%s(%s)' % (k, '' if x is None else x) for k, x in hist]}
        op = op_of(fn)
        vals = [run_kani.le_int(v) for v in test['values']]
        N = len(prog.enabled())
        if op in ('iter', 'COUNT', 'vx_reach_iter'):
            a, b, n = 0, 0, 0
        elif op == 'get':
            return replay_main(prog, [], 'iter', 0), {'history': ['iter().collect()']}
        elif len(vals) >= 2:
            a, b = vals[0], vals[1]
            n = vals[2] if len(vals) > 2 else 0
        else:
            return None
        hist = history_for_state(N, a, b)
        if hist is None:
            return None
        return replay_main(prog, hist, op, n), {
            'state': {'idx': a, 'back_idx': b}, 'n': n,
            'history': ['%s(%s)' % (k, '' if x is None else x) for k, x in hist] + ['%s(%s)' % (op, n if op == 'nth' else '')]}
    def extra_checks(self, ctx, progs, items):
        if ctx.pid != 'C05':
            return
        for p in progs:
            o = core.Obligation('%s/rustc:iterator-is-Send+Sync-for-a-!Send-!Sync-parameter' % p.name, p.name, 'send_sync', 'rustc', ['C05'])
            o.status = 'discharged'
            ctx.obligations.append(o)
        ctx.checker_cmds.append('cargo build (corpus crate with `vx_send_sync::<EIter<NotSendSync>>()` type-level assertions)')
    def sample(self, ctx, prog, plan):
        c = plan[(prog.name + 'Iter', 'Iterator', 'nth')]
        return {'program': prog.rust_source(), 'obligation': '%sIter::nth' % prog.name,
                'contract': {'requires': [t for _, t in c.requires], 'ensures': [t for _, t in c.ensures]}}

def run(ctx):
    return IterUnit().run(ctx)
