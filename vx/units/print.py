"""C03 / C17 (fixed names) / C11 (forwarding): Display, AsRefStr, IntoStaticStr, VariantNames."""
from .. import core, corpus, spec_print, run_kani, vspec, oracle
from .common import Unit

class PrintUnit(Unit):
    rule = ('enumerated: {no attr, to_string, 1..3 serialize of distinct lengths in every order, both} x prefix {none, "", ASCII, non-ASCII} x '
            'serialize_all styles x kinds/generics x disabled placement x const_into_str x default/transparent with inner Cap / nested derived enum / &\'static str '
            '(quick: 11 programs; thorough: + 60 systematic over all 17 style strings)')
    assumptions = (
        'formatter ghost model: fmt_out / fmt_spec / pad_str / pad_ok are uninterpreted; `<str as Display>::fmt` is assumed to have exactly the effect str_fmt_post (it stands for std\'s padding code)',
        'corpus fixtures Cap: Display / AsRef<str> are external_body with opaque effect relations cap_fmt_post / cap_str',
        'vstd\'s precondition DisplaySpec::fmt_req is propagated as a precondition of the generated fmt',
        'rewrites R1 (trait impls -> inherent/free fns; calls through Display/AsRef/From on a nested generated enum re-pointed), R4 (slice const hoisted to a module-level exec const), R5, R7',
    )
    def corpus(self, ctx):
        return corpus.corpus_print(ctx.tier, ctx.seed)
    def gen(self, ctx, prog):
        return spec_print.gen(prog, ctx.pid)
    def verus_text(self, ctx, prog, pre, asm, lemmas):
        inner = prog.inner.verus_enum() if prog.inner else ''
        return '\n'.join([prog.aux_verus, inner, prog.verus_enum(), pre, asm.text, lemmas])
    def kani_module(self, ctx, prog):
        return spec_print.kani_module(prog, want_names=True)
    def kani_harnesses(self, ctx, prog):
        if ctx.pid != 'C03' or 'random' in prog.tags:
            return []
        return spec_print.kani_harness_list(prog, want_names=True)
    def twin_of(self, ctx, prog, fn):
        return None
    def candidate_replay(self, ctx, prog, o):
        from .. import lreplay
        return lreplay.printers(prog, o.fn)
    def sample(self, ctx, prog, plan):
        k = (prog.name, 'Display', 'fmt')
        if k in plan:
            c = plan[k]
            return {'program': prog.rust_source(), 'obligation': '%s::fmt' % prog.name, 'contract': {'requires': [t for _, t in c.requires], 'ensures': [t for _, t in c.ensures]}}

def run(ctx):
    return PrintUnit().run(ctx)
