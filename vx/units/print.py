"""C03 / C17 (fixed names) / C11 (forwarding): Display, AsRefStr, IntoStaticStr, VariantNames."""
from .. import core, corpus, spec_print, run_kani, vspec, oracle
from .common import Unit

class PrintUnit(Unit):
    kani_harness_timeout = 1200
    rule = ('enumerated: {no attr, to_string, 1..3 serialize of distinct lengths in every order, both} x prefix {none, "", ASCII, non-ASCII} x '
            'serialize_all styles x kinds/generics x disabled placement x const_into_str x default/transparent with inner Cap / nested derived enum / &\'static str '
            '(quick: 11 programs; thorough: + 60 systematic over all 17 style strings)')
    assumptions = (
        'formatter ghost model: fmt_out / fmt_spec / pad_str / pad_ok are uninterpreted; `<str as Display>::fmt` is assumed to have exactly the effect str_fmt_post (it stands for std\'s padding code)',
        'corpus fixtures Cap: Display / AsRef<str> are external_body with opaque effect relations cap_fmt_post / cap_str',
        'vstd\'s precondition DisplaySpec::fmt_req is propagated as a precondition of the generated fmt',
        'rewrites R1 (trait impls -> inherent/free fns; calls through Display/AsRef/From on a nested generated enum re-pointed), R4 (slice const hoisted to a module-level exec const), R5, R7',
    )
    def corpus(self, ctx):
        return corpus.corpus_print(ctx.tier, ctx.seed)
    def gen(self, ctx, prog):
        return spec_print.gen(prog, ctx.pid)
    def verus_text(self, ctx, prog, pre, asm, lemmas):
        inner = prog.inner.verus_enum() if prog.inner else ''
        return '\n'.join([prog.aux_verus, inner, prog.verus_enum(), pre, asm.text, lemmas])
    def kani_module(self, ctx, prog):
        return spec_print.kani_module(prog, want_names=True, want_grid=True)
    def fallback_harnesses(self, ctx, prog, fns):
        # name twins for every (variant, printer) + a concrete format-spec twin for up to two fixed-name variants per program, and at
        # most six programs (format! under CBMC takes minutes): a bounded sample of specs, labelled so
        hs = spec_print.kani_harness_list(prog, want_names=True)
        if not hasattr(self, '_grid_progs'):
            cands = [p for p in ctx.programs if spec_print.grid_variants(p)]
            multi = [p for p in cands if any(ord(c) > 127 for v in spec_print.grid_variants(p) for c in oracle.canonical_names(p, v)[0])]
            rest = [p for p in cands if p not in multi]
            self._grid_progs = set(p.name for p in multi[:3] + rest[:3])
        # the format-spec twins take minutes: only when the function that left Verus' reach is the Display impl
        if prog.name in self._grid_progs and any('fmt' in f for f in fns):
            hs += [('grid_%s_%s' % (v.ident, part), 'format specs on %s' % v.ident) for v in spec_print.grid_variants(prog) for part in ('a', 'b')]
        return hs
    def kani_harnesses(self, ctx, prog):
        if ctx.pid != 'C03' or 'random' in prog.tags:
            return []
        return spec_print.kani_harness_list(prog, want_names=True)
    def twin_of(self, ctx, prog, fn):
        return None
    def candidate_replay(self, ctx, prog, o):
        from .. import lreplay
        fn = 'fmt' if ('format specs' in o.fn or 'display' in o.fn) else o.fn
        return lreplay.printers(prog, fn)
    def sample(self, ctx, prog, plan):
        k = (prog.name, 'Display', 'fmt')
        if k in plan:
            c = plan[k]
            return {'program': prog.rust_source(), 'obligation': '%s::fmt' % prog.name, 'contract': {'requires': [t for _, t in c.requires], 'ensures': [t for _, t in c.ensures]}}

def run(ctx):
    return PrintUnit().run(ctx)
