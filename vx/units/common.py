"""The flow shared by all units: corpus -> expansions -> Verus modules -> obligations -> Kani twins -> replay."""
import os, re, shutil, time
from .. import core, expand, assemble, run_kani, replay, rtok

class Unit:
    pid_list = ()
    rule = ''
    per_file = 4
    features = ('derive',)         # features of the strum dependency
    kani_always = False            # run Kani twins in the quick tier as well (where Kani is the decider)
    kani_jobs = 14
    verus_top = ''                 # extra top-level text (e.g. `global size_of usize == 8;`)
    assumptions = ()
    level = 'proof'

    # ---- to be provided -----------------------------------------------------------------
    def corpus(self, ctx):
        raise NotImplementedError
    def gen(self, ctx, prog):
        """-> (pre_text, plan, const_plan, lemma_text)"""
        raise NotImplementedError
    def kani_module(self, ctx, prog):
        return ''
    def kani_harnesses(self, ctx, prog):
        """[(harness fn name, label)] that count as obligations when Kani runs."""
        return []
    def twin_of(self, ctx, prog, fn):
        """harness name (without module path) that re-checks Verus obligation `fn` on the real code, or None."""
        return None
    def make_replay(self, ctx, prog, fn, test):
        """-> (main_src, cex_dict) or None; `test` = {'check':..., 'values':[[bytes]..]} from Kani playback."""
        return None
    def skip_verus(self, ctx, prog):
        return None
    def sample(self, ctx, prog, plan):
        # default: the first function under contract of this program, written out
        for key, c in plan.items():
            if ctx.pid in c.props and (c.requires or c.ensures):
                return {'program': prog.rust_source()[:1500], 'obligation': '%s::%s' % (key[0], key[2]),
                        'contract': {'requires': [t for _, t in c.requires][:6], 'ensures': [t for _, t in c.ensures][:8]}}
        return None
    def verus_text(self, ctx, prog, pre, asm, lemmas):
        return '\n'.join([prog.aux_verus, prog.verus_enum(), pre, asm.text, lemmas])
    def classify_kani_failure(self, descs):
        j = ' '.join(descs)
        return ['overflow' if 'overflow' in j else 'assertion']

    # ---- flow ---------------------------------------------------------------------------
    def build_modules(self, ctx, progs, items):
        mods = []
        for p in progs:
            if p.name not in items:
                continue
            self.item_text = getattr(self, 'item_text', {})
            try:
                self.item_text[p.name] = ' '.join(rtok.render(getattr(it, 'toks', [])) for it in items[p.name])
            except Exception:
                self.item_text[p.name] = None
            why = self.skip_verus(ctx, p)
            if why:
                ctx.not_verified_by_verus.add('%s: %s' % (p.name, why))
                continue
            self._cur_items = items[p.name]
            try:
                pre, plan, consts, lemmas = self.gen(ctx, p)
                asm = assemble.assemble_program(p, items[p.name], plan, consts)
            except (assemble.LostAnchor, rtok_error()) as e:
                self._lost_anchor(ctx, p, str(e))
                continue
            allc = dict(plan)
            allc.update(consts)
            missing = [k for k in allc if k not in asm.seen_keys and not getattr(allc[k], 'optional', False)]
            if missing:
                self._lost_anchor(ctx, p, 'generated function(s) not found: %s' % (missing,))
                continue
            unplanned = self.unplanned_overrides(ctx, p, asm)
            if unplanned:
                self._lost_anchor(ctx, p, 'generated function(s) outside the contract plan that change what the property relies on: %s' % ', '.join(unplanned))
                continue
            text = self.verus_text(ctx, p, pre, asm, lemmas)
            expected = []
            for vname, key, c in asm.functions:
                if ctx.pid in c.props:
                    expected.append((vname, c.props, [l for l, _ in c.requires] + [l for l, _ in c.ensures]))
                    ctx.functions_under_contract.add('%s::%s' % (key[0].replace(p.name, 'E'), key[2]))
            for m in re.finditer(r'// @@FN (vx_\w+)(?: props=([\w,]+))?', lemmas):
                props = m.group(2).split(',') if m.group(2) else [ctx.pid]
                if ctx.pid in props:
                    expected.append((m.group(1), props, ['lemma']))
            for k, v in asm.stats.items():
                ctx.stats[k] = ctx.stats.get(k, 0) + v
            mods.append(core.VerusModule(p, text, expected, asm.stats, asm.dropped))
            if len(ctx.samples) < 3:
                s = self.sample(ctx, p, plan)
                if s:
                    ctx.samples.append(s)
        return mods

    def unplanned_overrides(self, ctx, p, asm):
        """Names of generated functions that are not under contract although the property depends on them (e.g. an override of an
        Iterator default method, which would invalidate 'std default methods run on top of the verified primitives')."""
        return []

    def _lost_anchor(self, ctx, p, why):
        """The expansion no longer has the shape the contracts are keyed on (a refactored template): never a violation.  The program's
        obligations are recorded as undecided so that the bounded Kani twins can stand in (kani_fallback)."""
        o = core.Obligation('%s/lost-anchor' % p.name, p.name, 'lost-anchor: ' + why[:160], 'verus', [ctx.pid])
        o.status = 'undecided'
        o.detail = 'verus status=error (not run)\nlost-anchor: %s' % why
        ctx.obligations.append(o)

    def kani_crate(self, ctx, progs):
        d = os.path.join(ctx.dir, 'kani')
        os.makedirs(d, exist_ok=True)
        for p in progs:
            p.kani_rust = self.kani_module(ctx, p)
        expand.write_crate(d, 'kani_' + ctx.pid.lower(), progs, dep_features=self.features,
                           crate_attrs='#![cfg_attr(kani, feature(stmt_expr_attributes, proc_macro_hygiene))]' if getattr(self, 'kani_loop_contracts', False) else '')
        for p in progs:
            p.kani_rust = ''
        return d

    def kani_all(self, ctx, progs, flags=()):
        progs = [p for p in progs if self.kani_harnesses(ctx, p)]
        if not progs:
            return
        d = self.kani_crate(ctx, progs)
        filters = ['%s::vx_proofs::%s' % (p.name_mod(), h) for p in progs for h, _ in self.kani_harnesses(ctx, p)]
        res = run_kani.run(d, filters=filters, jobs=self.kani_jobs, extra_flags=['--exact'] + list(flags), harness_timeout=getattr(self, 'kani_harness_timeout', 600))
        ctx.log('kani: %d harnesses %.1fs rc=%s' % (len(res.harnesses), res.wall, res.rc))
        be = ctx.backends.setdefault('kani', {})
        be.update({'wall_s': round(res.wall, 1), 'solver_s': round(res.solver_s, 2), 'version': res.version})
        ctx.checker_cmds.append('cargo kani -Z function-contracts -Z stubbing -j %d (harness modules next to the real derives)' % self.kani_jobs)
        if res.compile_error:
            ctx.undecided.append('kani: ' + res.compile_error[:600])
            return
        for p in progs:
            for hname, label in self.kani_harnesses(ctx, p):
                hid = '%s::vx_proofs::%s' % (p.name_mod(), hname)
                h = res.harnesses.get(hid)
                o = core.Obligation('%s/kani:%s' % (p.name, hname), p.name, label, 'kani', [ctx.pid])
                o.harness = hid
                if len(ctx.samples) < 3 and not any(s_.get('program_name') == p.name for s_ in ctx.samples):
                    ctx.samples.append({'program_name': p.name, 'program': p.rust_source()[:1200], 'kani_harness': hid, 'obligation': label})
                if h is None:
                    o.status = 'undecided'
                    o.detail = 'harness not reported by kani'
                elif h['status'] == 'Success':
                    o.status = 'discharged'
                    o.time_us = h['duration_ms'] * 1000
                elif not h['failed']:
                    o.status = 'undecided'
                    o.detail = 'kani status=%s without a failed check (timeout / out of memory / unwinding)' % h['status']
                else:
                    descs = sorted(set((c['description'] or '') for c in h['failed']))
                    ARTIFACT = ('free argument', 'double free', 'rust_dealloc', 'dereference failure', 'pointer NULL', 'pointer invalid', 'memory leak', 'deallocated dynamic object',
                                'unallocated memory', 'Offset in bytes', 'Offset result', 'Offset value', 'same allocation', 'Rust intrinsic assumption', 'pointer to')
                    real = [x for x in descs if not any(a in x for a in ARTIFACT) and 'unwinding' not in x]
                    if any('unwinding assertion' in x for x in descs):
                        # a loop was cut off: every other check of this harness is then meaningless (CBMC continues past the bound
                        # with unconstrained state), so nothing it reports is a violation
                        o.status = 'undecided'
                        o.detail = 'unwinding assertion failed: bound too small; other reported checks are not meaningful'
                    elif not real and any(any(a in x for a in ARTIFACT) for x in descs):
                        # CBMC memory-model checks inside std on safe code (strum has no unsafe): a tool artifact, never an alarm
                        o.status = 'undecided'
                        o.detail = 'only CBMC memory-model checks failed (tool artifact on safe code): ' + '; '.join(descs)[:300]
                    elif any('unwinding assertion' in x for x in descs) and all('unwinding' in x for x in descs):
                        o.status = 'undecided'
                        o.detail = 'unwinding assertion failed: bound too small'
                    else:
                        o.status = 'failed'
                        o.kinds = self.classify_kani_failure(descs)
                        o.detail = 'kani failed checks: ' + '; '.join(descs)
                ctx.obligations.append(o)

    def counterexamples(self, ctx, progs, failed):
        byname = {p.name: p for p in progs}
        want = {}
        for o in failed:
            p = byname.get(o.prog)
            if p is None or o.backend == 'rustc':
                continue
            if o.backend == 'kani':
                tw = o.oid.split('kani:')[-1]
            else:
                tw = self.twin_of(ctx, p, o.fn)
            if tw:
                want.setdefault('%s::vx_proofs::%s' % (p.name_mod(), tw), []).append(o)
        if not want:
            self.candidate_replays(ctx, progs, failed)
            shutil.rmtree(os.path.join(ctx.dir, 'replay_run'), ignore_errors=True)
            return
        d = self.kani_crate(ctx, [p for p in progs if any(o.prog == p.name for o in failed)])
        done = 0
        tried = 0
        for hid, lst in sorted(want.items()):
            if done >= 1 or tried >= 2:
                break
            tried += 1
            t0 = time.time()
            tests = run_kani.playback(d, hid, timeout=getattr(self, 'cex_timeout', 300))
            ctx.log('kani twin %s: %d counterexample(s) in %.1fs' % (hid, len(tests), time.time() - t0))
            for o in lst:
                p = byname[o.prog]
                for t in tests:
                    try:
                        r = self.make_replay(ctx, p, o.fn, t)
                    except Exception as e:
                        ctx.log('replay generation failed: %s' % e)
                        r = None
                    if not r:
                        continue
                    main, cex = r
                    rr = replay.build_and_run(os.path.join(ctx.dir, 'replay_run'), p.module_source(), main, features=self.features)
                    cex = dict(cex)
                    cex.update({'kani_harness': hid, 'failed_check': t['check'], 'native': rr})
                    o.cex = cex
                    o.replay_program = {'program': p.module_source(), 'main': main, 'features': list(self.features)}
                    if replay.failed(rr):
                        o.replayed = True
                        done += 1
                        break
        self.candidate_replays(ctx, progs, failed)
        shutil.rmtree(os.path.join(ctx.dir, 'replay_run'), ignore_errors=True)

    def fallback_harnesses(self, ctx, prog, fns):
        """[(harness, label)] : bounded Kani twins that stand in for the Verus obligations `fns` of prog when Verus cannot take the
        generated code (unsupported construct).  Default: the unit's thorough-tier harnesses."""
        saved = ctx.tier
        ctx.tier = 'thorough'
        try:
            return self.kani_harnesses(ctx, prog)
        finally:
            ctx.tier = saved

    def kani_fallback(self, ctx, progs, already):
        """DESIGN 14: where a generated function is outside Verus' subset (status `error`: unsupported construct, not a failed
        obligation) the Kani twin of that function on the real code stands in, labelled bounded."""
        und = [o for o in ctx.obligations if o.status == 'undecided' and o.backend == 'verus' and 'verus status=error' in (o.detail or '')]
        if not und:
            return
        by_prog = {}
        for o in und:
            by_prog.setdefault(o.prog, []).append(o)
        todo = [p for p in progs if p.name in by_prog]
        have = {}
        need = {}
        done_ids = set(o.oid for o in ctx.obligations if o.backend == 'kani')
        for p in todo:
            hs = self.fallback_harnesses(ctx, p, [o.fn for o in by_prog[p.name] if getattr(o, 'culprit', True)])
            if hs:
                have[p.name] = hs
                missing = [h for h in hs if '%s/kani:%s' % (p.name, h[0]) not in done_ids]
                if missing:
                    need[p.name] = missing
        if not have:
            return
        run_progs = [p for p in todo if p.name in have]
        saved_h = self.kani_harnesses
        self.kani_harnesses = lambda c, pr: need.get(pr.name, [])
        try:
            if need:
                # two stages: the cheap programs first; if a twin already fails there, the verdict is a violation and the expensive
                # twins (generic payloads, String-holding capture variants) are not needed
                todo_p = [p for p in run_progs if p.name in need]
                def cost(p):
                    return (any(f.ty in ('Cap', 'T') or f.ty.startswith('&') for v in p.variants for f in v.fields), len(p.variants))
                todo_p.sort(key=cost)
                cut = max(4, len(todo_p) // 2)
                first, rest = todo_p[:cut], todo_p[cut:]
                n0 = len(ctx.obligations)
                self.kani_all(ctx, first)
                if rest and not any(o.status == 'failed' for o in ctx.obligations[n0:]):
                    self.kani_all(ctx, rest)
                elif rest:
                    ctx.log('kani fallback: a twin of the first stage failed; %d more programs not run' % len(rest))
        finally:
            self.kani_harnesses = saved_h
        for p in run_progs:
            want_ids = set('%s/kani:%s' % (p.name, h[0]) for h in have[p.name])
            ko = [o for o in ctx.obligations if o.backend == 'kani' and o.oid in want_ids]
            if len(ko) == len(want_ids) and all(o.status in ('discharged', 'failed') for o in ko):
                dropped = by_prog[p.name]
                ctx.obligations = [o for o in ctx.obligations if o not in dropped]
                why = (dropped[0].detail or '').split('\n')[1:3]
                ctx.not_verified_by_verus.add('%s: %s outside Verus\' subset (%s); bounded Kani twin(s) %s stand in' % (
                    p.name, ', '.join(sorted(set(o.fn for o in dropped))), ' '.join(x.strip() for x in why)[:160], ', '.join(h for h, _ in have[p.name])))
                ctx.bounded.append('%s: Verus could not take the generated code; decided by bounded Kani twin(s) on the real code' % p.name)

    def candidate_replay(self, ctx, prog, o):
        """-> Rust `main` source exercising the failed function on the cases its clauses talk about, or None."""
        return None

    def candidate_replays(self, ctx, progs, failed):
        byname = {p.name: p for p in progs}
        done = 0
        for o in failed:
            if o.replayed or done >= 3 or o.backend == 'rustc':
                continue
            p = byname.get(o.prog)
            if p is None:
                continue
            try:
                main = self.candidate_replay(ctx, p, o)
            except Exception as e:
                ctx.log('candidate replay generation failed: %r' % e)
                main = None
            if not main:
                continue
            rr = replay.build_and_run(os.path.join(ctx.dir, 'replay_run'), p.module_source(), main, features=self.features)
            fails = [l for r in rr.values() for l in r['stdout'].splitlines() if l.startswith('REPLAY-FAIL')]
            if o.cex is None:
                o.cex = {}
            o.cex.update({'candidate_replay': True, 'failing_cases': fails[:6], 'native': rr})
            o.replay_program = {'program': p.module_source(), 'main': main, 'features': list(self.features)}
            if replay.failed(rr):
                o.replayed = True
                done += 1

    def run(self, ctx):
        progs = self.corpus(ctx)
        ctx.programs = progs
        items, rejected = expand.build_and_expand(ctx.dir + '/corpus', 'corpus_' + ctx.pid.lower(), progs, ctx.log,
                                                  dep_features=self.features)
        core.note_rejected(ctx, rejected)
        live = [p for p in progs if p.name in items]
        mods = self.build_modules(ctx, live, items)
        if mods:
            ctx.obligations.extend(core.verify_modules(ctx, mods, per_file=self.per_file, extra_top=self.verus_top))
        skipped = [p for p in live if self.skip_verus(ctx, p)]
        ran_kani_for = set()
        if ctx.tier == 'thorough' or self.kani_always:
            self.kani_all(ctx, live)
            ran_kani_for = set(p.name for p in live)
        elif skipped:
            self.kani_all(ctx, skipped)
            ran_kani_for = set(p.name for p in skipped)
        self.kani_fallback(ctx, live, ran_kani_for)
        failed = [o for o in ctx.obligations if o.status == 'failed']
        if failed:
            try:
                self.counterexamples(ctx, live, failed)
            except Exception as e:
                ctx.log('counterexample search failed: %r' % e)
        self.extra_checks(ctx, live, items)
        ctx.assumptions += list(self.assumptions) + [
            'programs quantifier covered by the corpus only (DESIGN 1, 6)',
            'rustc compiles the printed token stream as it compiles the in-memory one',
            'Verus/Z3, Kani/CBMC and rustc are sound',
        ]
        return core.finish(ctx, level=self.level, rule=self.rule)

    def extra_checks(self, ctx, progs, items):
        pass

def rtok_error():
    from ..rtok import LexError
    return LexError
