"""Run Kani on the real derives (harness modules live next to the derived enums) and parse its JSON export."""
import json, os, re, subprocess, time
from . import expand

def _env():
    env = dict(os.environ)
    env['CARGO_NET_OFFLINE'] = 'true'
    env.pop('CARGO_TARGET_DIR', None)
    env.pop('RUSTFLAGS', None)
    env.pop('RUSTUP_TOOLCHAIN', None)
    env.pop('STRUM_DEBUG', None)
    return env

class KaniResult:
    def __init__(self):
        self.harnesses = {}    # id -> dict(status, duration_ms, failed=[{description,function,file,line}], n_checks)
        self.rc = None
        self.wall = 0.0
        self.stdout = ''
        self.compile_error = None
        self.version = None
        self.solver_s = 0.0

def run(crate_dir, filters=None, jobs=8, harness_timeout=600, extra_flags=(), timeout=3600):
    """Runs the named harnesses; long lists are split so that the command line stays below the OS limit."""
    filters = list(filters or [])
    if len(filters) <= 250:
        return _run(crate_dir, filters, jobs, harness_timeout, extra_flags, timeout)
    total = KaniResult()
    total.rc = 0
    for i in range(0, len(filters), 250):
        r = _run(crate_dir, filters[i:i + 250], jobs, harness_timeout, extra_flags, timeout)
        total.harnesses.update(r.harnesses)
        total.wall += r.wall
        total.solver_s += r.solver_s
        total.version = r.version or total.version
        total.stdout += r.stdout[-2000:]
        if r.rc not in (0, None):
            total.rc = r.rc
        if r.compile_error:
            total.compile_error = r.compile_error
            break
    return total

def _run(crate_dir, filters=None, jobs=8, harness_timeout=600, extra_flags=(), timeout=3600):
    out_json = os.path.join(crate_dir, 'kani_out.json')
    if os.path.exists(out_json):
        os.remove(out_json)
    cmd = ['cargo', 'kani', '-Z', 'function-contracts', '-Z', 'stubbing', '-Z', 'unstable-options', '--export-json', out_json,
           '--harness-timeout', '%ds' % harness_timeout, '-j', str(jobs), '--output-format', 'terse']
    for f in (filters or []):
        cmd += ['--harness', f]
    cmd += list(extra_flags)
    t0 = time.time()
    r = KaniResult()
    try:
        p = subprocess.run(cmd, cwd=crate_dir, env=_env(), stdout=subprocess.PIPE, stderr=subprocess.STDOUT,
                           universal_newlines=True, timeout=timeout)
        r.rc = p.returncode
        r.stdout = p.stdout
    except subprocess.TimeoutExpired as e:
        r.rc = -9
        r.stdout = (e.stdout or '') if isinstance(e.stdout, str) else ''
        r.compile_error = 'kani timed out after %ds' % timeout
    r.wall = time.time() - t0
    if not os.path.exists(out_json):
        if r.compile_error is None:
            r.compile_error = _tail_errors(r.stdout)
        return r
    try:
        d = json.load(open(out_json))
    except Exception as e:
        r.compile_error = 'cannot read kani json: %s' % e
        return r
    r.version = d.get('metadata', {}).get('kani_version')
    for c in d.get('cbmc', []):
        st = c.get('cbmc_stats', {}) or {}
        r.solver_s += float(st.get('runtime_decision_procedure_s', 0) or 0) + float(st.get('runtime_solver_s', 0) or 0)
    for h in d.get('verification_results', {}).get('results', []):
        failed = []
        for c in h.get('checks', []) or []:
            if c.get('status') not in ('Success', 'Unreachable', 'Satisfied', 'Covered', 'Uncovered', 'Unsatisfiable'):
                loc = c.get('location') or {}
                failed.append({'description': c.get('description'), 'function': c.get('function'), 'status': c.get('status'),
                               'file': loc.get('file'), 'line': loc.get('line')})
        r.harnesses[h['harness_id']] = {'status': h.get('status'), 'duration_ms': h.get('duration_ms', 0), 'failed': failed,
                                        'n_checks': len(h.get('checks', []) or [])}
    return r

def _tail_errors(out):
    lines = [l for l in out.splitlines() if l.startswith('error') or 'panicked' in l]
    return '\n'.join(lines[:8]) or out[-1500:]

_VEC = re.compile(r'vec!\[([0-9,\s]*)\]')

def playback(crate_dir, harness, timeout=900):
    """Concrete values (one byte list per kani::any()) of each failing check of one harness."""
    cmd = ['cargo', 'kani', '-Z', 'function-contracts', '-Z', 'stubbing', '-Z', 'concrete-playback', '--concrete-playback=print',
           '--harness', harness, '--exact']
    try:
        p = subprocess.run(cmd, cwd=crate_dir, env=_env(), stdout=subprocess.PIPE, stderr=subprocess.STDOUT,
                           universal_newlines=True, timeout=timeout)
    except subprocess.TimeoutExpired:
        return []
    tests = []
    for block in p.stdout.split('Concrete playback unit test for')[1:]:
        m = re.search(r'Check for `[^`]*`: "([^"]*)"', block)
        body = block.split('let concrete_vals', 1)
        if len(body) < 2:
            continue
        body = body[1].split('];', 1)[0]
        vals = []
        for v in _VEC.findall(body.split('= vec![', 1)[1] if '= vec![' in body else body):
            v = v.strip()
            vals.append([int(x) for x in v.split(',') if x.strip()] if v else [])
        tests.append({'check': m.group(1) if m else None, 'values': vals})
    return tests

def le_int(bs, signed=False):
    n = 0
    for i, b in enumerate(bs):
        n |= b << (8 * i)
    if signed and bs and bs[-1] & 0x80:
        n -= 1 << (8 * len(bs))
    return n
