"""Native replay programs for failed obligations whose input domain is finite (one case per variant) or for which
the model names the interesting inputs (spellings, case flips, discriminants +-1 ...).

These programs do not decide anything: a property is decided by the verifier.  They run the *real* function that
failed its contract on the cases the failed clause talks about and compare with the oracle, so that the VIOLATION
line can carry a failing input.  Each prints `REPLAY-FAIL <case>` lines or `REPLAY-OK`.
"""
from . import oracle, vspec, spec_parse, spec_print, spec_misc
from .model import rs_str

HDR = '''#[allow(unused_imports)] use strum::{IntoEnumIterator, EnumCount, VariantNames, VariantArray, EnumMessage, EnumProperty, IntoDiscriminant};
#[allow(unused_imports)] use core::str::FromStr;
#[allow(unused_imports)] use core::convert::TryFrom;
'''

def value_of(prog, v, cap='"inner-Value"'):
    """Rust expression: variant v with defaulted payload (Cap fields hold a recognisable string)."""
    path = '%s::%s' % (prog.name, v.ident)
    def fv(f):
        if f.ty == 'Cap':
            return 'Cap::from(%s)' % cap
        if prog.inner is not None and f.ty == prog.inner.name:
            return '%s::%s' % (prog.inner.name, prog.inner.variants[0].ident)
        if f.ty.startswith('&'):
            return '"str-payload"'
        return 'Default::default()'
    if v.kind == 'unit':
        return path
    if v.kind == 'tuple':
        return '%s(%s)' % (path, ', '.join(fv(f) for f in v.fields))
    return '%s { %s }' % (path, ', '.join('%s: %s' % (f.name, fv(f)) for f in v.fields))

def wrap(prog, body):
    return HDR + 'type En = %s%s;\nfn main() {\n    let mut bad = 0;\n%s\n    if bad == 0 { println!("REPLAY-OK") }\n}\n' % (prog.name, vspec.rust_inst(prog), body)

def chk(obs, exp, what):
    return '    { let o = %s; let e = %s; if o != e { bad += 1; println!("REPLAY-FAIL %s: observed {:?}, expected {:?}", o, e); } }' % (obs, exp, what.replace('"', '\\"').replace('{', '{{').replace('}', '}}'))

SPECS = ['{}', '{:>12}', '{:*<9}', '{:^7.2}', '{:.0}', '{:-^14.3}', '{:^6}', '{:^8}', '{:3.2}', '{:2.1}']

def printers(prog, fn):
    L = []
    f = fn.split('::')[-1]
    for v in prog.variants:
        if v.disabled:
            continue
        val = value_of(prog, v)
        fw = spec_print.forwards_display(v)
        names = oracle.canonical_names(prog, v)
        if f == 'fmt':
            for sp in SPECS + ['{:%d}' % len(names[0].encode('utf-8'))]:
                if fw:
                    k = spec_print.inner_kind(prog, v)
                    if k == 'cap':
                        exp = 'vec![format!("%s", Cap::from("inner-Value"))]' % sp
                    elif k == 'str':
                        exp = 'vec![format!("%s", "str-payload")]' % sp
                    elif k == 'enum':
                        exp = 'vec![format!("%s", %s::%s)]' % (sp, prog.inner.name, prog.inner.variants[0].ident)
                    else:
                        continue
                else:
                    if any(oracle.has_placeholder(n) for n in names):
                        continue
                    exp = 'vec![%s]' % ', '.join('format!("%s", %s)' % (sp, rs_str(n)) for n in names)
                L.append('    { let v: En = %s; let o = format!("%s", v); let e: Vec<String> = %s; if !e.contains(&o) { bad += 1; println!("REPLAY-FAIL format!({:?}, %s::%s): observed {:?}, expected one of {:?}", "%s", o, e); } }' % (
                    val, sp, exp, prog.name, v.ident, sp.replace('{', '{{').replace('}', '}}')))
            continue
        if v.transparent and spec_print.inner_kind(prog, v) != 'enum' and not (f == 'as_ref' and spec_print.inner_kind(prog, v) == 'cap'):
            continue
        if v.transparent:
            if spec_print.inner_kind(prog, v) == 'cap':
                exp = 'vec!["inner-Value".to_string()]'
            else:
                iv = prog.inner.variants[0]
                exp = 'vec![%s.to_string()]' % rs_str(oracle.canonical_names(prog.inner, iv)[0])
        else:
            exp = 'vec![%s]' % ', '.join('%s.to_string()' % rs_str(n) for n in names)
        if f == 'as_ref':
            obs = 'v.as_ref().to_string()'
        elif f.endswith('_into_static_ref'):
            obs = '{ let t: &\'static str = (&v).into(); t.to_string() }'
        elif f.endswith('_into_static'):
            obs = '{ let t: &\'static str = v.into(); t.to_string() }'
        elif f == 'into_str':
            obs = 'v.into_str().to_string()'
        else:
            continue
        L.append('    { let v: En = %s; let o: String = %s; let e: Vec<String> = %s; if !e.contains(&o) { bad += 1; println!("REPLAY-FAIL %s on %s::%s: observed {:?}, expected one of {:?}", o, e); } }' % (
            val, obs, exp, f, prog.name, v.ident))
    if f.endswith('VariantNames_VARIANTS'):
        L.append('    { let o: Vec<&str> = <En as strum::VariantNames>::VARIANTS.to_vec(); let e: Vec<Vec<&str>> = vec![%s]; if o.len() != e.len() || o.iter().zip(e.iter()).any(|(a, b)| !b.contains(a)) { bad += 1; println!("REPLAY-FAIL VariantNames::VARIANTS: observed {:?}, expected (alternatives per position) {:?}", o, e); } }' % (
            ', '.join('vec![%s]' % ', '.join(rs_str(n) for n in oracle.canonical_names(prog, v)) for v in prog.variants)))
    if f.endswith('VariantArray_VARIANTS'):
        L.append('    { let o = format!("{:?}", <En as strum::VariantArray>::VARIANTS); let e = format!("{:?}", [%s]); if o != e { bad += 1; println!("REPLAY-FAIL VariantArray::VARIANTS: observed {}, expected {}", o, e); } }' % (
            ', '.join('%s::%s' % (prog.name, v.ident) for v in prog.variants)))
    return wrap(prog, '\n'.join(L)) if L else None

def message(prog, fn):
    f = fn.split('::')[-1]
    L = []
    for v in prog.variants:
        val = value_of(prog, v)
        if f == 'get_message':
            e = None if v.disabled else v.message
        elif f == 'get_detailed_message':
            e = None if v.disabled else (v.detailed_message if v.detailed_message is not None else v.message)
        elif f == 'get_documentation':
            e = None if v.disabled else oracle.doc_text(v)
        else:
            continue
        exp = 'None::<&str>' if e is None else 'Some(%s)' % rs_str(e)
        L.append('    { let v: En = %s; ' % val + chk('v.%s()' % f, exp, '%s on %s::%s' % (f, prog.name, v.ident))[6:])
    return wrap(prog, '\n'.join(L)) if L else None

def props(prog, fn):
    f = fn.split('::')[-1]
    keys = []
    for v in prog.variants:
        for g in v.props:
            for k, _ in g:
                if k not in keys:
                    keys.append(k)
    keys += ['zz_unknown', '']
    pyt = {'get_str': str, 'get_int': int, 'get_bool': bool}.get(f)
    if pyt is None:
        return None
    L = []
    for v in prog.variants:
        val = value_of(prog, v)
        for k in keys:
            e = None
            if not v.disabled:
                for g in v.props:
                    for kk, x in g:
                        if kk == k and type(x) is pyt and e is None:
                            e = x
            if e is None:
                exp = {'get_str': 'None::<&str>', 'get_int': 'None::<i64>', 'get_bool': 'None::<bool>'}[f]
            elif pyt is str:
                exp = 'Some(%s)' % rs_str(e)
            elif pyt is int:
                exp = 'Some(%di64)' % e
            else:
                exp = 'Some(%s)' % ('true' if e else 'false')
            L.append('    { let v: En = %s; ' % val + chk('v.%s(%s)' % (f, rs_str(k)), exp, '%s(%s) on %s::%s' % (f, k, prog.name, v.ident))[6:])
    return wrap(prog, '\n'.join(L))

def is_try(prog, fn):
    f = fn.split('::')[-1]
    L = []
    target = None
    for v in prog.enabled():
        sn = oracle.snake_with_digits(v.ident)
        if f in ('is_' + sn, 'try_as_' + sn, 'try_as_%s_ref' % sn):
            target = v
    if target is None and ' on ' in fn:
        # Kani twin `is_<V>`: every predicate / try_as on the value of variant V
        vn = fn.split(' on ')[-1].strip()
        vv = [x for x in prog.variants if x.ident == vn]
        if not vv:
            return None
        v = vv[0]
        val = value_of(prog, v)
        for w in prog.enabled():
            sn = oracle.snake_with_digits(w.ident)
            if 'EnumIs' in prog.derives:
                L.append('    { let v: En = %s; ' % val + chk('v.is_%s()' % sn, 'true' if w is v else 'false', 'is_%s on %s::%s' % (sn, prog.name, v.ident))[6:])
            if 'EnumTryAs' in prog.derives and w.kind == 'tuple' and w.fields:
                L.append('    { let v: En = %s; ' % val + chk('v.try_as_%s_ref().is_some()' % sn, 'true' if w is v else 'false', 'try_as_%s_ref on %s::%s' % (sn, prog.name, v.ident))[6:])
        return wrap(prog, '\n'.join(L)) if L else None
    if target is None:
        return None
    for v in prog.variants:
        val = value_of(prog, v)
        same = v is target
        if f.startswith('is_'):
            L.append('    { let v: En = %s; ' % val + chk('v.%s()' % f, 'true' if same else 'false', '%s on %s::%s' % (f, prog.name, v.ident))[6:])
        elif f.endswith('_ref'):
            L.append('    { let v: En = %s; ' % val + chk('v.%s().is_some()' % f, 'true' if same else 'false', '%s on %s::%s' % (f, prog.name, v.ident))[6:])
        else:
            L.append('    { let v: En = %s; ' % val + chk('v.%s().is_some()' % f, 'true' if same else 'false', '%s on %s::%s' % (f, prog.name, v.ident))[6:])
    return wrap(prog, '\n'.join(L))

def disc(prog, fn):
    D = spec_misc.disc_name(prog)
    R = spec_misc.disc_repr(prog)
    sh = prog.shadow_enum('Shadow').replace('pub enum', '#[allow(dead_code)] enum')
    L = []
    for v in prog.variants:
        val = value_of(prog, v)
        L.append('    { let v: En = %s; let d: %s = (&v).into(); ' % (val, D) + chk('(d as %s, format!("{:?}", d))' % R, '(Shadow::%s as %s, "%s".to_string())' % (v.ident, R, v.ident), 'discriminant of %s::%s' % (prog.name, v.ident))[6:])
    return sh + '\n' + wrap(prog, '\n'.join(L))

def parse(prog, fn):
    cands = []
    def add(s):
        if s not in cands:
            cands.append(s)
    for v in prog.variants:
        for p in oracle.spellings(prog, v):
            for s in (p, p.upper(), p.lower(), p.swapcase(), p.title(), p + ' ', ' ' + p, p[:-1], p + 'x', p.replace('k', 'K').replace('s', 'ſ').replace('i', 'ı')):
                add(s)
        add(v.ident)
        add(v.ident.lower())
        add(oracle.convert_case(prog.serialize_all, v.ident))
    for s in ('', 'zz-nothing', 'é', 'K', 'K'):
        add(s)
    inst = vspec.rust_inst(prog)
    dv = spec_parse.default_variant(prog)
    err_ty = prog.parse_err_ty if (prog.parse_err_ty and dv is None) else 'strum::ParseError'
    body = '    for s in [%s] {\n        let o = En::from_str(s); let t = En::try_from(s); let e = expected(s);\n        if o != e || t != e { bad += 1; println!("REPLAY-FAIL from_str({:?}) = {:?}, try_from = {:?}, expected {:?}", s, o, t, e); }\n    }' % ', '.join(rs_str(c) for c in cands)
    return HDR + 'type En = %s%s;\n%s\nfn expected(s: &str) -> Result<En, %s> {\n%s\n}\nfn main() {\n    let mut bad = 0;\n%s\n    if bad == 0 { println!("REPLAY-OK") }\n}\n' % (
        prog.name, inst, spec_parse.FOLD_EQ, err_ty, spec_parse.rust_expected(prog, inst), body)
