"""Verus spec-expression helpers shared by the per-derive spec generators."""
from .model import PALETTE, rs_str

def ty_path(prog):
    """`P001Color::<T>` style path usable in expressions."""
    if prog.generics_use:
        return '%s::%s' % (prog.name, prog.generics_use)
    return prog.name

def ty_use(prog):
    return prog.name + prog.generics_use

def field_default_pred(prog, f, var, default_with_spec=None):
    """Boolean spec expression: `var` is the default value of field f."""
    if default_with_spec is not None:
        return '%s == %s' % (var, default_with_spec)
    if f.ty in PALETTE:
        return '%s == %s' % (var, PALETTE[f.ty])
    return 'is_default::<%s>(%s)' % (f.ty, var)

def variant_pred(prog, v, expr, field_preds=None, dw=None):
    """`expr` is variant v with every payload field satisfying its predicate (default: Default::default()).
    dw: {field index: spec expr} values produced by default_with functions."""
    dw = dw or {}
    if v.kind == 'unit':
        return '(%s is %s)' % (expr, v.ident)
    names = []
    conds = []
    for i, f in enumerate(v.fields):
        b = 'vx_f%d' % i
        names.append(b)
        if field_preds is not None:
            conds.append(field_preds(i, f, b))
        else:
            conds.append(field_default_pred(prog, f, b, dw.get(i)))
    if v.kind == 'tuple':
        pat = '%s::%s(%s)' % (prog.name, v.ident, ', '.join(names))
    else:
        pat = '%s::%s { %s }' % (prog.name, v.ident, ', '.join('%s: %s' % (f.name, b) for f, b in zip(v.fields, names)))
    return '(%s matches %s && %s)' % (expr, pat, ' && '.join(conds))

def lit(s):
    return rs_str(s)

def if_chain(cases, default):
    """cases: [(cond, value)] -> nested if/else expression text."""
    out = ''
    for c, val in cases:
        out += 'if %s { %s } else ' % (c, val)
    return out + '{ %s }' % default

def rust_default_value(prog, v, inst=None):
    """Rust expression (for Kani harnesses / replay programs, built from the model): variant v with defaulted payload."""
    path = '%s::%s' % (prog.name, v.ident)
    if v.kind == 'unit':
        return path
    if v.kind == 'tuple':
        return '%s(%s)' % (path, ', '.join('Default::default()' for _ in v.fields))
    return '%s { %s }' % (path, ', '.join('%s: Default::default()' % f.name for f in v.fields))

def rust_inst(prog, ty='u8', const='3'):
    """Concrete instantiation of the program's generics for Kani/replay: <u8, 3>."""
    if not prog.generics_use:
        return ''
    parts = []
    for g in prog.generics_use.strip('<>').split(','):
        g = g.strip()
        if g.startswith("'"):
            parts.append("'static")
        else:
            parts.append(ty if g in prog.type_params else const)
    return '<' + ', '.join(parts) + '>'
