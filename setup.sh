#!/bin/sh
# Offline setup: nothing to build ahead of time (python3 + verus + kani + cargo are pre-installed).
# Warm the cargo target cache so that the first check does not pay for strum_macros' dependencies.
set -e
cd "$(dirname "$0")"
mkdir -p work evidence
python3 -c "import json,jsonschema; jsonschema.validate(json.load(open('MANIFEST.json')), json.load(open('/root/.vp/MANIFEST.schema.json')))" 2>/dev/null || true
exit 0
